"""C16 - resizing and padding follow the named rule; cropping undoes extension.

Two case kinds:

``array``     ``resize_array(arr, newshp, offset, pad_mode, pad_const,
              direction, out)`` for 1-3 axes, old/new sizes 0..7 (grow, shrink
              and equal mixed), every legal offset, 5 modes x 2 directions,
              4 dtypes, castable / non-castable pad constants, C / F / strided
              input, ``out=`` (C / F / strided, same or wider dtype).
``op``        ``ResizingOperator`` on ``uniform_discr`` domains with 1-2 axes
              (with / without boundary nodes, optional constant weighting)
              built from ``ran_shp`` (+ ``offset`` / default offset /
              ``discr_kwargs={'nodes_on_bdry': ..}``) or an explicit
              ``range=``.

Oracle: ``vlib.ref.padding`` ("crop, then np.pad / linear extrapolation axis
by axis") decides every admissible configuration for all inputs through the
full forward matrix and offset; the adjoint direction must be the exact
transpose; documented preconditions must raise ``ValueError`` and nothing
else may; the overlapping block is bit-identical; extend-then-crop is the
identity; operator level: offset, axes, range limits / grid alignment / cell
sides, linearity flag, derivative, inverse, adjoint spaces, transpose and the
Gram identity in the library's own (weighted) inner products.
"""
import collections
import itertools

import numpy as np
from hypothesis import strategies as st

from vlib import build, flat
from vlib.core import Violation, Outcome, HarnessError
from vlib.ref import padding as P

odl = build.odl
from odl.util.numerics import resize_array  # noqa: E402

PROPERTY = 'C16'
TECHNIQUE = ('exhaustive enumeration of small shapes/offsets/modes plus '
             'Hypothesis continuation; each configuration decided for all '
             'inputs by its full matrix and offset against a crop-then-np.pad '
             'reference; transposes and Gram identity for the adjoint; '
             'descriptor replay')
LEVEL_TEXT = ('Every admissible (old size, new size, offset, mode, pad '
              'constant, dtype) configuration of the enumerated sub-space '
              '(1-D old sizes 0..6, new sizes 0..9; thorough: 2-D old sizes '
              '0..3, new sizes 0..5 per axis) is decided for all inputs in '
              'both directions because resizing is affine and the complete '
              'matrix and offset are compared with the reference; every '
              'inadmissible one must raise ValueError. Larger / 3-D shapes, '
              'memory layouts, out=, and the ResizingOperator options are '
              'explored by generated cases with the same per-configuration '
              'decision. Exploration for the unbounded part, exhaustive for '
              'the listed finite part.')
LEVEL_NOTE = ('Trusted: numpy.pad as the meaning of constant/reflect/wrap/'
              'edge padding, the linear-extrapolation code in '
              'vlib/ref/padding.py, the descriptor builder, and the library '
              'inner product in the Gram identity (pinned by C02). Known '
              'findings: operator adjoint ignores boundary-cell fractions '
              '(F06 family) and differing constant weightings of an '
              'explicit range; ran_shp + positive offset on a shrinking '
              'axis misplaces the range; these regions are still evaluated '
              'for every other clause (incl. exact transposition).')
DESIGN_REF = 'DESIGN.md section 5, C16'
BUDGET = {'quick': 6000, 'thorough': 80000}
TOLERANCES = {
    'forward values': 'bit-identical to the reference for constant / '
                      'symmetric / periodic / order0 (pure copies); order1: '
                      '|got-ref| <= 4*eps*prod_axes(1+2*pad)*max|x|',
    'block': 'overlapping block bit-identical to the input block',
    'matrices': 'forward and adjoint matrices (entries are small integers) '
                'equal the reference / its transpose exactly; operator with '
                'an explicit range=: alternatively the transpose times '
                '(range weighting constant / domain weighting constant) '
                'within (4*eps + g) relative, g as in gram',
    'adjoint data': '|got - M^T y| <= 4*eps*(|M^T||y|), exact for integers',
    'gram': 'max|N^T G_X - G_Y M| <= (64*eps + g)*max(|lhs|,|rhs|); g = 0 '
            'for ran_shp-built ranges (weighting inherited), g = 8*eps64*'
            'sum_axes (|min|+|max|)/cell for an explicit range= (its cell '
            'volume comes from its own grid stride)',
    'range geometry': '|limit - expected| <= 16*eps*(|min|+|max|+(cells '
                      'added+1)*cell side); cell sides to the same absolute '
                      'tolerance divided by the number of cells',
}
ASSUMPTIONS = [
    'offsets lie in the documented legal range 0..|new-old| on axes that '
    'change; on an unchanged axis nothing is added or removed, so a non-zero '
    'entry there (as produced by a scalar offset broadcast to all axes) is '
    'accepted and the axis is fully overlapping (what the unchanged library '
    'does; the docstring defines offset as "entries added to / removed from '
    'the left"); negative offsets are not generated',
    'a ResizingOperator whose range dtype differs from the domain dtype '
    '(discr_kwargs={"dtype": ..} or explicit range): widening pairs only '
    '(int64->float/complex, float32->float64/complex, float64->complex128); '
    'values, pad constant and castability are judged in the range dtype',
    'data finite; integer data in -20..20 (no overflow is asserted)',
    'pad_const castability is judged by value ("safe cast" of a Python '
    'scalar), as numpy.can_cast does in NumPy 1.x',
    'for an odd number of removed cells and no offset the library may put '
    'the extra removed cell on either side (only the growing case is '
    'documented as "preference for left")',
    'ResizingOperator on integer spaces: forward / transpose clauses only '
    '(no inner product)',
    'the inverse of the adjoint operator (op.adjoint.inverse) is outside '
    'the property',
    'a pad constant the dtype cannot hold is only asserted (ValueError) '
    'when some axis grows; without padding the documentation is silent '
    '(resize_array(np.arange(3), (2,), pad_const=1j) raises TypeError) and '
    'nothing is asserted; operators get pad constants of their own dtype '
    'kind only',
]
RULE = ('exhaustive 1-D (and 2-D in thorough) enumeration of old size x new '
        'size x legal offset x mode x pad_const x dtype; generated: '
        'Hypothesis draws 1-3 axes with sizes 0..7 mixing grow/shrink/equal, '
        'offsets, mode, pad constant class, dtype, layouts, out=, or a '
        'ResizingOperator configuration (domain, ran_shp/range, offset, '
        'discr_kwargs, mode, pad_const). Non-trivial = oracle evaluated and '
        '(some growing axis with total pad >= 2, or grow and shrink mixed, '
        'or the adjoint direction was evaluated); distinct by sha1 of the '
        'descriptor')
EXHAUSTIVE = {
    'quick': ['resize_array 1-D: old size 0..6 x new size 0..9 x every legal '
              'offset x 5 modes x pad_const {0,1 | constant: 0,1,2.5,1j} x '
              '{float64,complex128,int64,float32}; both directions, '
              'preconditions, round trip'],
    'thorough': ['resize_array 1-D: old size 0..6 x new size 0..9 x every '
                 'legal offset x 5 modes x pad_const classes x 4 dtypes',
                 'resize_array 2-D: old sizes 0..3 x new sizes 0..5 per axis '
                 'x every legal offset pair x 5 modes x pad_const {0; '
                 'constant: 0,1} x {float64,int64}'],
}
DTYPES = ['float64', 'complex128', 'int64', 'float32']
MAX_IN, MAX_OUT = 220, 420


# --------------------------------------------------------------------------
# generators

def _adesc(old, new, off, mode, c, dtype, order='C', out='none',
           out_dtype='same', offset_none=False, seed=0, offset_scalar=False):
    return {'kind': 'array', 'old': list(old), 'new': list(new),
            'offset': list(off), 'offset_none': offset_none,
            'offset_scalar': offset_scalar, 'mode': mode,
            'pad_const': c, 'dtype': dtype, 'order': order, 'out': out,
            'out_dtype': out_dtype, 'seed': seed}


def _enum_offsets(n_old, n_new, extra=(1, 2)):
    """Legal offsets; on an unchanged axis nothing is added or removed, a
    non-zero entry there (e.g. from a broadcast scalar offset) is accepted
    and the axis is fully overlapping."""
    offs = P.legal_offsets(n_old, n_new)
    return offs + list(extra) if n_old == n_new else offs


def enumerate_cases(tier):
    for n_old in range(0, 7):
        for n_new in range(0, 10):
            for off in _enum_offsets(n_old, n_new):
                for mode in P.MODES:
                    consts = [0, 1, 2.5, 1j] if mode == 'constant' else [0, 1]
                    for c in consts:
                        for dtype in DTYPES:
                            yield _adesc([n_old], [n_new], [off], mode, c,
                                         dtype)
    if tier != 'thorough':
        return
    for old in itertools.product(range(0, 4), repeat=2):
        for new in itertools.product(range(0, 6), repeat=2):
            offs = [_enum_offsets(o, n, extra=(2,))
                    for o, n in zip(old, new)]
            for off in itertools.product(*offs):
                for mode in P.MODES:
                    consts = [0, 1] if mode == 'constant' else [0]
                    for c in consts:
                        for dtype in ('float64', 'int64'):
                            yield _adesc(old, new, off, mode, c, dtype)


def _f32(x):
    return float(np.float32(x))


@st.composite
def _pad_const(draw, dtype, mode, castable_only=False, wide_for=None):
    kind = np.dtype(dtype).kind
    if wide_for is not None and mode == 'constant' and draw(st.booleans()):
        # a constant of the range's kind that the (narrower) domain dtype
        # ``wide_for`` cannot represent
        if kind == 'c' and np.dtype(wide_for).kind != 'c':
            return complex(draw(st.floats(-4, 4).map(_f32)),
                           draw(st.sampled_from([1.0, -2.5, 0.5])))
        if wide_for == 'int64':
            return draw(st.sampled_from([0.5, -2.5, 0.1]))
        return draw(st.sampled_from([0.1, 0.3, -1.0 / 3]) |
                    st.floats(-50, 50))
    classes = (['zero', 'zero', 'int', 'float', 'complex']
               if mode == 'constant' else ['zero', 'zero', 'zero', 'int'])
    if castable_only:
        # an operator's pad constant lives in the dtype of its range
        allowed = {'i': ('zero', 'int'), 'f': ('zero', 'int', 'float'),
                   'c': ('zero', 'int', 'float', 'complex')}[kind]
        classes = [k for k in classes if k in allowed]
    cls = draw(st.sampled_from(classes))
    if cls == 'zero':
        return draw(st.sampled_from([0, 0.0] if kind != 'i' else [0]))
    if cls == 'int':
        return draw(st.sampled_from([1, -1, 3, -7, 20]))
    if cls == 'float':
        return draw(st.sampled_from([2.5, -0.5, 1.0]) |
                    st.floats(-50, 50).map(_f32))
    return complex(draw(st.floats(-4, 4).map(_f32)),
                   draw(st.sampled_from([1.0, -2.5, 0.5])))


@st.composite
def _axis(draw, max_old=7, max_new=7, min_size=0, regime=None):
    """(old, new, offset) for one axis, all regimes on purpose."""
    if regime is None:
        regime = draw(st.sampled_from(['grow', 'grow', 'shrink', 'same',
                                       'grow_big']))
    elif regime == 'grow':
        regime = draw(st.sampled_from(['grow', 'grow', 'grow_big']))
    if regime == 'same':
        n = draw(st.integers(min_size, max_old))
        # a non-zero offset entry on an unchanged axis must be ignored
        return n, n, draw(st.sampled_from([0, 0, 1, 2, 3]))
    if regime == 'shrink':
        n_old = draw(st.integers(max(1, min_size + 1), max_old))
        n_new = draw(st.integers(min_size, n_old - 1))
    elif regime == 'grow':
        n_old = draw(st.integers(min_size, max(min_size, max_new - 1)))
        n_new = draw(st.integers(n_old + 1, max_new))
    else:
        # padding longer than the array (legal for constant/order0/order1)
        n_old = draw(st.integers(max(min_size, 1), 3))
        n_new = draw(st.integers(2 * n_old + 1, max(2 * n_old + 1, max_new)))
    pos = draw(st.sampled_from(['left', 'right', 'any', 'any']))
    d = abs(n_new - n_old)
    off = {'left': 0, 'right': d}.get(pos)
    if off is None:
        off = draw(st.integers(0, d))
    return n_old, n_new, off


def _axes(draw, nd, kw):
    """Per-axis (old, new, offset); with several axes, half of the cases mix
    growing and shrinking axes on purpose."""
    regimes = [None] * nd
    if nd >= 2 and draw(st.booleans()):
        regimes = draw(st.permutations(['grow', 'shrink'] +
                                       [None] * (nd - 2)))
    return [draw(_axis(regime=r, **kw)) for r in regimes]


@st.composite
def _array_case(draw):
    nd = draw(st.sampled_from([1, 2, 2, 3, 3]))
    cap = {1: 7, 2: 7, 3: 6}[nd]
    scalar = nd >= 2 and draw(st.integers(0, 4)) == 0
    if scalar:
        # one scalar offset k broadcast to all axes: unchanged axes, axes
        # growing by >= k and axes shrinking by >= k
        k = draw(st.integers(1, 3))
        axes = []
        for i in range(nd):
            reg = draw(st.sampled_from(['same', 'grow', 'grow', 'shrink'])) \
                if i else 'same'
            if reg == 'same':
                n = draw(st.integers(0, cap))
                axes.append((n, n, k))
            elif reg == 'grow':
                n = draw(st.integers(0, cap - k))
                axes.append((n, n + k + draw(st.integers(0, 2)), k))
            else:
                n = draw(st.integers(0, cap - k))
                axes.append((n + k + draw(st.integers(0, 2)), n, k))
        axes = draw(st.permutations(axes))
    else:
        axes = _axes(draw, nd, dict(max_old=cap,
                                    max_new=cap + (3 if nd == 1 else 1)))
    old = [a[0] for a in axes]
    new = [a[1] for a in axes]
    off = [a[2] for a in axes]
    mode = draw(st.sampled_from(P.MODES))
    dtype = draw(st.sampled_from(DTYPES))
    c = draw(_pad_const(dtype, mode))
    out = draw(st.sampled_from(['none', 'none', 'C', 'F', 'strided']))
    out_dtype = 'same'
    if out != 'none' and draw(st.integers(0, 3)) == 0:
        out_dtype = 'wider'
    d = _adesc(old, new, off, mode, c, dtype,
               order=draw(st.sampled_from(['C', 'F', 'strided'])),
               out=out, out_dtype=out_dtype,
               offset_none=draw(st.booleans()) and not any(off),
               seed=draw(st.integers(0, 2 ** 31 - 1)),
               offset_scalar=scalar)
    # the container of the (documented: array-like) input: plain ndarray, an
    # ndarray subclass, an ODL tensor wrapping the array without copy (both
    # share memory with the caller's data), or a nested list
    d['arrkind'] = draw(st.sampled_from(['ndarray', 'ndarray', 'subclass',
                                         'odl', 'list']))
    return d


@st.composite
def _op_case(draw):
    nd = draw(st.sampled_from([1, 1, 2, 2]))
    cap_old, cap_new = (6, 9) if nd == 1 else (5, 6)
    axes = _axes(draw, nd, dict(max_old=cap_old, max_new=cap_new,
                                min_size=1))
    shape = [a[0] for a in axes]
    ran_shp = [a[1] for a in axes]
    off = [a[2] for a in axes]
    dtype = draw(st.sampled_from(['float64', 'float64', 'complex128',
                                  'float32', 'int64']))
    mins, cells = [], []
    for _ in range(nd):
        # full-precision generic values on purpose: float32-rounded limits
        # make all grid arithmetic exact and hide rounding in the offset
        # computation
        mins.append(draw(st.sampled_from([0.0, -1.0, 2.0, 0.1, -0.7]) |
                         st.floats(-5, 5).map(_f32) | st.floats(-5, 5)))
        cells.append(draw(st.sampled_from([1.0, 0.5, 0.25, 2.0, 0.1, 0.3]) |
                          st.floats(0.05, 4.0).map(_f32) |
                          st.floats(0.05, 4.0)))
    nobk = draw(st.sampled_from(['no', 'no', 'all', 'sides']))
    if min(shape) < 2 or dtype == 'int64':
        nobk = 'no'
    nob = {'no': False, 'all': True}.get(nobk)
    if nob is None:
        nob = [[draw(st.booleans()), draw(st.booleans())] for _ in range(nd)]
    how = draw(st.sampled_from(['ran_shp', 'ran_shp', 'ran_shp', 'range']))
    if nob is not False:
        how = 'ran_shp'
    dk = None
    offsets = list(off)
    if how == 'ran_shp':
        okind = draw(st.sampled_from(['explicit', 'explicit', 'none',
                                      'partial']))
        if okind == 'none':
            offsets = None
        elif okind == 'partial':
            offsets = [o if draw(st.booleans()) else None for o in off]
        dkk = draw(st.sampled_from(['none', 'none', 'true', 'false',
                                    'sides']))
        if min(ran_shp) < 2:
            dkk = 'none'
        if dkk == 'true':
            dk = {'nodes_on_bdry': True}
        elif dkk == 'false':
            dk = {'nodes_on_bdry': False}
        elif dkk == 'sides':
            dk = {'nodes_on_bdry': [[draw(st.booleans()),
                                     draw(st.booleans())]
                                    for _ in range(nd)]}
    mode = draw(st.sampled_from(P.MODES))
    weighting = None
    if dtype != 'int64' and draw(st.integers(0, 4)) == 0:
        weighting = draw(st.sampled_from([2.0, 0.5, 3.0]))
    ran_weighting = None
    if how == 'range' and dtype != 'int64' and draw(st.integers(0, 2)) == 0:
        # explicit range carrying its own constant weighting
        ran_weighting = draw(st.sampled_from([2.0, 0.5, 3.0]))
    # range dtype different from (wider than) the domain dtype, either via
    # discr_kwargs={'dtype': ..} or through the explicit range
    ran_dtype = None
    if draw(st.integers(0, 3)) == 0:
        ran_dtype = draw(st.sampled_from(
            {'int64': ['float64', 'float32', 'complex128'],
             'float32': ['float64', 'complex64', 'complex128'],
             'float64': ['complex128'],
             'complex128': ['complex128']}[dtype]))
        if ran_dtype == dtype:
            ran_dtype = None
        else:
            weighting = ran_weighting = None
    return {'kind': 'op', 'shape': shape, 'min': mins, 'cell': cells,
            'dtype': dtype, 'nob': nob, 'weighting': weighting,
            'ran_weighting': ran_weighting, 'ran_dtype': ran_dtype,
            'ran_shp': ran_shp, 'how': how, 'offset': offsets,
            'discr_kwargs': dk, 'mode': mode,
            'pad_const': draw(_pad_const(ran_dtype or dtype, mode,
                                         castable_only=True,
                                         wide_for=dtype if ran_dtype
                                         else None)),
            'op_out': draw(st.booleans()),
            'seed': draw(st.integers(0, 2 ** 31 - 1))}


def strategy(tier):
    return st.one_of(_array_case(), _op_case())


# --------------------------------------------------------------------------
# helpers

def _layout(vals, order):
    if order == 'C':
        return np.ascontiguousarray(vals)
    if order == 'F':
        return np.asfortranarray(vals)
    if order == 'strided':
        big = np.zeros(tuple(2 * s for s in vals.shape), dtype=vals.dtype)
        view = big[tuple(slice(None, None, 2) for _ in vals.shape)]
        view[...] = vals
        return view
    raise HarnessError(order)


def _data(shape, dtype, seed, salt=0):
    rng = np.random.RandomState((int(seed) * 7919 + salt) % (2 ** 32))
    dt = np.dtype(dtype)
    if dt.kind in 'iu':
        return rng.randint(-20, 21, size=shape).astype(dt)
    a = rng.uniform(-1, 1, size=shape) * rng.choice([1.0, 30.0])
    if a.size >= 3:
        flat_a = a.reshape(-1)
        flat_a[rng.randint(a.size)] = 0.0
        flat_a[rng.randint(a.size)] = -0.0
    if dt.kind == 'c':
        a = a + 1j * rng.uniform(-1, 1, size=shape)
    return a.astype(dt)


def _bits_equal(a, b):
    a, b = np.asarray(a), np.asarray(b)
    return a.shape == b.shape and a.dtype == b.dtype and \
        np.ascontiguousarray(a).tobytes() == np.ascontiguousarray(b).tobytes()


def _wider(dtype):
    return {'float32': 'float64', 'int64': 'float64',
            'float64': 'complex128', 'complex128': 'complex128'}[dtype]


def _shape_region(old, new, off):
    kinds = [k for k, _, _ in P.pad_widths(old, new, off)]
    g, s = 'grow' in kinds, 'shrink' in kinds
    return 'mixed' if g and s else ('grow' if g else ('shrink' if s
                                                      else 'same'))


def _order1_growth(old, new, off):
    f = 1.0
    for kind, left, right in P.pad_widths(old, new, off):
        if kind == 'grow':
            f *= 1 + 2 * max(left, right)
    return f


# --------------------------------------------------------------------------
# resize_array

class _SubArray(np.ndarray):
    """A trivial ndarray subclass (stands for memmap / matrix / user types)."""


def _contain(arr, kind):
    """The array-like handed to resize_array for input array ``arr``."""
    if kind == 'subclass':
        return arr.view(_SubArray)
    if kind == 'odl' and arr.ndim >= 1 and arr.size > 0:
        elem = odl.tensor_space(arr.shape, dtype=arr.dtype).element(arr)
        return elem
    if kind == 'list' and arr.size > 0 and arr.dtype in (
            np.dtype('float64'), np.dtype('complex128'), np.dtype('int64')):
        # (only dtypes a nested list converts back to)
        return arr.tolist()
    return arr


def _call_resize(arr, newshp, off, mode, c, direction, out, sig, offset_none,
                 arrkind='ndarray'):
    """Call the function under test; returns (result | None, raised).
    ``offset_none == 'scalar'`` passes the common offset as one integer."""
    arr = _contain(arr, arrkind)
    kwargs = dict(pad_mode=mode, pad_const=c, direction=direction)
    if offset_none == 'scalar':
        kwargs['offset'] = int(off[0])
    elif not offset_none:
        kwargs['offset'] = list(off)
    if out is not None:
        kwargs['out'] = out
    try:
        res = resize_array(arr, tuple(newshp), **kwargs)
    except ValueError as e:
        return None, e
    if out is not None and res is not out:
        raise Violation(sig.format('out-identity'),
                        'result is not the out array')
    return res, None


def _run_array(desc):
    old, new = tuple(desc['old']), tuple(desc['new'])
    off = tuple(desc['offset'])
    mode, c = desc['mode'], desc['pad_const']
    dt_in = np.dtype(desc['dtype'])
    okind = desc['out']
    dt = np.dtype(_wider(desc['dtype'])) if (okind != 'none' and
                                             desc['out_dtype'] == 'wider') \
        else dt_in
    nd = len(old)
    notes = collections.Counter()
    shape_reg = _shape_region(old, new, off)
    region = '{},{},{}'.format(mode, shape_reg, 'int' if dt.kind in 'iu'
                               else 'float')
    sig = 'C16|{}|resize_array|' + region
    offset_none = bool(desc.get('offset_none')) and not any(off)
    if desc.get('offset_scalar') and len(set(off)) == 1:
        offset_none = 'scalar'
    in_size = int(np.prod(old, dtype=int))
    out_size = int(np.prod(new, dtype=int))

    def make_out(shape):
        if okind == 'none':
            return None
        o = _layout(np.zeros(shape, dtype=dt), okind)
        o[...] = np.nan if dt.kind in 'fc' else 77
        return o

    def validate(res, shape, what):
        if not isinstance(res, np.ndarray) or res.shape != tuple(shape) or \
                res.dtype != dt:
            raise Violation(sig.format('shape-dtype'),
                            '{}: returned {} {} {}, expected ndarray {} {}'
                            ''.format(what, type(res).__name__,
                                      getattr(res, 'shape', None),
                                      getattr(res, 'dtype', None), shape, dt))

    x = _layout(_data(old, dt_in, desc['seed']), desc['order'])
    xin = x.copy()
    xc = np.ascontiguousarray(x).astype(dt)   # values as computed with

    # ---- forward: preconditions ------------------------------------------
    why = P.violated_precondition(old, new, off, mode, c, dt, 'forward')
    if mode == 'constant' and why is None and not P.can_hold(c, dt):
        # a constant the array cannot hold while nothing is padded: the
        # documentation is silent (the library ignores it or raises
        # TypeError from ndarray.fill); outside the property
        notes['uncastable_const_without_padding_not_asserted'] += 1
        return Outcome('trivial', strata=['array|uncastable-nogrow'],
                       notes=dict(notes))
    arrkind = desc.get('arrkind', 'ndarray')
    res, exc = _call_resize(x, new, off, mode, c, 'forward', make_out(new),
                            sig, offset_none, arrkind)
    if why is not None and exc is None:
        raise Violation('C16|precondition|resize_array|forward,' + why,
                        'accepted: old {} new {} offset {} mode {} pad_const '
                        '{!r} dtype {}'.format(old, new, off, mode, c, dt))
    if why is None and exc is not None:
        raise Violation('C16|spurious-rejection|resize_array|forward,' +
                        region,
                        'old {} new {} offset {} pad_const {!r} dtype {}: '
                        'ValueError {}'.format(old, new, off, c, dt, exc))
    if not np.array_equal(x, xin) or not _bits_equal(x, xin):
        raise Violation(sig.format('input-modified'), 'forward changed arr')
    fwd_ok = why is None
    same_off = any(a == b_ and o_ != 0 for a, b_, o_ in zip(old, new, off))
    strata = ['array|' + mode, 'array|shape:' + shape_reg,
              'array|ndim:{}'.format(nd), 'array|dtype:' + desc['dtype'],
              'array|order:' + desc['order'], 'array|out:' + okind,
              'array|container:' + desc.get('arrkind', 'ndarray'),
              'array|cfg:{}|{}'.format(mode, shape_reg)]
    if okind != 'none':
        strata.append('array|out_dtype:' + desc['out_dtype'])
    if same_off:
        strata.append('array|offset-on-unchanged-axis')
    if offset_none == 'scalar':
        strata.append('array|offset:scalar')
    if not fwd_ok:
        strata.append('array|rejected:' + why)
        notes['forward_rejected'] += 1
    cast_c = None
    M = b = None
    if fwd_ok:
        validate(res, new, 'forward')
        # ---- values against the reference ----------------------------------
        cast_c = np.asarray(c).astype(dt) if mode == 'constant' else 0
        ref = P.resize(xc, new, off, mode, cast_c)
        if mode == 'order1' and dt.kind in 'fc':
            tol = 4 * np.finfo(dt).eps * _order1_growth(old, new, off) * \
                float(np.abs(xc).max(initial=0))
            bad = ~(np.abs(res - ref) <= tol)
        else:
            bad = ~((res == ref) | (np.isnan(res) & np.isnan(ref)))
        if np.any(bad):
            idx = tuple(int(v) for v in np.argwhere(bad)[0])
            raise Violation(sig.format('forward-value'),
                            'old {} new {} offset {}: entry {} got {!r} ref '
                            '{!r}'.format(old, new, off, idx, res[idx],
                                          ref[idx]))
        bo, bn = P.block_slices(old, new, off)
        if not _bits_equal(res[bn], xc[bo]):
            raise Violation(sig.format('block'),
                            'overlapping block not bit-identical (old {} '
                            'new {} offset {})'.format(old, new, off))
        # ---- extend, then crop back: identity on the block -----------------
        why_back = P.violated_precondition(new, old, off, mode, c, dt,
                                           'forward')
        if why_back is None:
            back, exc = _call_resize(res, old, off, mode, c, 'forward',
                                     None, sig, offset_none)
            if exc is not None:
                raise Violation('C16|spurious-rejection|resize_array|'
                                'forward,' + region,
                                'crop-back {} -> {}: {}'.format(new, old,
                                                                exc))
            validate(back, old, 'round trip')
            if not _bits_equal(back[bo], xc[bo]):
                raise Violation(sig.format('roundtrip'),
                                'resize back does not restore the block '
                                '(old {} new {} offset {})'.format(old, new,
                                                                   off))
            notes['roundtrip_checked'] += 1
        # ---- full matrix and offset ------------------------------------------
        if in_size <= MAX_IN and out_size <= MAX_OUT:
            M, b = P.matrix(old, new, off, mode)
            zero = np.zeros(old, dtype=dt_in)
            r0, exc = _call_resize(zero, new, off, mode, c, 'forward',
                                   make_out(new), sig, offset_none)
            if exc is not None:
                raise Violation('C16|spurious-rejection|resize_array|'
                                'forward,' + region, 'zero input: {}'.format(
                                    exc))
            validate(r0, new, 'forward(0)')
            got_off = r0.ravel().copy()
            ref_off = (b * cast_c).astype(dt)
            if not np.array_equal(got_off, ref_off):
                i = int(np.argwhere(got_off != ref_off)[0][0])
                raise Violation(sig.format('forward-offset'),
                                'old {} new {} offset {}: entry {} got {!r} '
                                'ref {!r}'.format(old, new, off, i,
                                                  got_off[i], ref_off[i]))
            got = np.empty((out_size, in_size), dtype=dt)
            e = np.zeros(in_size, dtype=dt_in)
            for k in np.arange(in_size):
                e[k] = 1
                rk, exc = _call_resize(e.reshape(old), new, off, mode, c,
                                       'forward', make_out(new), sig,
                                       offset_none)
                if exc is not None:
                    raise Violation('C16|spurious-rejection|resize_array|'
                                    'forward,' + region, str(exc))
                got[:, k] = rk.ravel() - got_off
                e[k] = 0
            if not np.array_equal(got, M.astype(dt)):
                i, j = (int(v) for v in np.argwhere(got != M.astype(dt))[0])
                raise Violation(sig.format('forward-matrix'),
                                'old {} new {} offset {}: entry ({}, {}) got '
                                '{!r} ref {!r}'.format(old, new, off, i, j,
                                                       got[i, j], M[i, j]))
            notes['forward_matrix_checked'] += 1

    # ---- adjoint direction -----------------------------------------------
    why_adj = P.violated_precondition(old, new, off, mode, c, dt, 'adjoint')
    y = _layout(_data(new, dt_in, desc['seed'], salt=1), desc['order'])
    yin = y.copy()
    yc = np.ascontiguousarray(y).astype(dt)
    ares, exc = _call_resize(y, old, off, mode, c, 'adjoint', make_out(old),
                             sig, offset_none, arrkind)
    if why_adj is not None and exc is None:
        raise Violation('C16|precondition|resize_array|adjoint,' + why_adj,
                        'accepted: small {} large {} offset {} mode {} '
                        'pad_const {!r}'.format(old, new, off, mode, c))
    if why_adj is None and exc is not None:
        raise Violation('C16|spurious-rejection|resize_array|adjoint,' +
                        region,
                        'small {} large {} offset {} pad_const {!r}: '
                        'ValueError {}'.format(old, new, off, c, exc))
    if not _bits_equal(y, yin):
        raise Violation(sig.format('input-modified'), 'adjoint changed arr')
    adj_ok = why_adj is None
    if not adj_ok:
        strata.append('array|adjoint-rejected:' + why_adj)
    else:
        validate(ares, old, 'adjoint')
        if in_size <= MAX_IN and out_size <= MAX_OUT:
            if M is None:
                M, b = P.matrix(old, new, off, mode)
            MT = M.T
            if dt.kind in 'iu':
                refa = (MT.astype(np.int64) @ yc.ravel().astype(np.int64))
                bad = ares.ravel() != refa
            else:
                ld = np.clongdouble if dt.kind == 'c' else np.longdouble
                refa = MT.astype(np.longdouble) @ yc.ravel().astype(ld)
                mag = np.abs(MT) @ np.abs(yc.ravel()).astype(float)
                bad = ~(np.abs(ares.ravel() - refa) <=
                        4 * np.finfo(dt).eps * mag + 1e-300)
            if np.any(bad):
                i = int(np.argwhere(bad)[0][0])
                raise Violation(sig.format('adjoint-value'),
                                'small {} large {} offset {}: entry {} got '
                                '{!r} ref {!r}'.format(
                                    old, new, off, i, ares.ravel()[i],
                                    complex(refa[i]) if dt.kind == 'c'
                                    else float(refa[i])))
            # full transposed matrix
            z0, exc = _call_resize(np.zeros(new, dtype=dt_in), old, off,
                                   mode, c, 'adjoint', make_out(old), sig,
                                   offset_none)
            if exc is not None or np.any(z0 != 0):
                raise Violation(sig.format('adjoint-matrix'),
                                'adjoint of zero is not zero ({})'.format(
                                    exc))
            gotT = np.empty((in_size, out_size), dtype=dt)
            e = np.zeros(out_size, dtype=dt_in)
            for k in np.arange(out_size):
                e[k] = 1
                rk, exc = _call_resize(e.reshape(new), old, off, mode, c,
                                       'adjoint', make_out(old), sig,
                                       offset_none)
                if exc is not None:
                    raise Violation('C16|spurious-rejection|resize_array|'
                                    'adjoint,' + region, str(exc))
                gotT[:, k] = rk.ravel()
                e[k] = 0
            if not np.array_equal(gotT, MT.astype(dt)):
                i, j = (int(v) for v in
                        np.argwhere(gotT != MT.astype(dt))[0])
                raise Violation(sig.format('adjoint-matrix'),
                                'small {} large {} offset {}: adjoint entry '
                                '({}, {}) got {!r}, transpose of forward has '
                                '{!r}'.format(old, new, off, i, j,
                                              gotT[i, j], MT[i, j]))
            notes['adjoint_matrix_checked'] += 1

    if not fwd_ok and not adj_ok:
        return Outcome('rejected', strata=strata, notes=dict(notes))
    widths = P.pad_widths(old, new, off)
    big_pad = any(k == 'grow' and l + r >= 2 for k, l, r in widths)
    nontriv = big_pad or shape_reg == 'mixed' or \
        (adj_ok and shape_reg != 'same')
    if adj_ok:
        strata.append('array|adjoint-evaluated')
    return Outcome('ok', strata=strata, nontrivial=nontriv,
                   notes=dict(notes))


# --------------------------------------------------------------------------
# ResizingOperator

def _sides(nob, nd):
    if nob is None or nob is False:
        return [(False, False)] * nd
    if nob is True:
        return [(True, True)] * nd
    return [(bool(p[0]), bool(p[1])) for p in nob]


def _realify(M, off, cplx, cplx_dom=None):
    """Real-ified matrix / offset as ``flat.opmatrix`` sees them; ``cplx``:
    the range is complex, ``cplx_dom``: the domain is (default: like the
    range).  A real domain mapped into a complex range fills real parts."""
    M = np.asarray(M, dtype=float)
    cplx_dom = cplx if cplx_dom is None else cplx_dom
    if not cplx:
        if cplx_dom:
            raise HarnessError('complex -> real operator')
        return M, np.real(np.asarray(off)).astype(float)
    offc = np.asarray(off).astype(complex)
    offr = np.stack([offc.real, offc.imag], axis=-1).ravel()
    if cplx_dom:
        return np.kron(M, np.eye(2)), offr
    return np.kron(M, np.array([[1.0], [0.0]])), offr


def _matrix_of(op, sig):
    try:
        return flat.opmatrix(op)
    except ValueError as e:
        raise Violation(sig, 'evaluation raised ValueError: {}'.format(e))


def _run_op(desc):
    shape = [int(s) for s in desc['shape']]
    ran_shp = [int(s) for s in desc['ran_shp']]
    nd = len(shape)
    dtype = desc['dtype']
    dt = np.dtype(dtype)
    cplx = dt.kind == 'c'
    isint = dt.kind in 'iu'
    rdt = np.dtype(desc.get('ran_dtype') or dtype)     # dtype of the range
    rcplx = rdt.kind == 'c'
    rint = rdt.kind in 'iu'
    mode, c = desc['mode'], desc['pad_const']
    notes = collections.Counter()
    deferred = []       # violations in known-finding regions, raised last

    # ---- the domain, independently of the library --------------------------
    dsides = _sides(desc['nob'], nd)
    mins, maxs, dxs, gmin, gmax = [], [], [], [], []
    for i, n in enumerate(shape):
        ncell = n - 0.5 * (dsides[i][0] + dsides[i][1])
        if ncell <= 0:
            raise HarnessError('degenerate domain')
        lo = float(desc['min'][i])
        hi = lo + float(desc['cell'][i]) * ncell
        dx = (hi - lo) / ncell
        mins.append(lo)
        maxs.append(hi)
        dxs.append(dx)
        gmin.append(lo + (0.0 if dsides[i][0] else dx / 2))
        gmax.append(hi - (0.0 if dsides[i][1] else dx / 2))
    sd = {'kind': 'discr', 'min': mins, 'max': maxs, 'shape': shape,
          'dtype': dtype, 'nodes_on_bdry': desc['nob'],
          'weighting': (None if desc['weighting'] is None else
                        {'type': 'const', 'value': desc['weighting']})}
    dom = build.build_space(sd)

    # ---- effective offsets ---------------------------------------------------
    offs_in = desc['offset']
    eff, explicit = [], []
    for i in np.arange(nd):
        o = None if offs_in is None else offs_in[i]
        d = ran_shp[i] - shape[i]
        if d == 0:
            eff.append(0)
            explicit.append(False)
        elif o is None:
            explicit.append(False)
            if d > 0:
                eff.append(d - d // 2)      # preference for left
            else:
                eff.append(None)            # either side admissible
        else:
            eff.append(int(o))
            explicit.append(True)

    rsides = _sides((desc['discr_kwargs'] or {}).get('nodes_on_bdry'), nd)
    kwargs = {'pad_mode': mode, 'pad_const': c}
    if desc['how'] == 'range':
        rmin, rmax = [], []
        for i in np.arange(nd):
            d = ran_shp[i] - shape[i]
            num_l = eff[i] if d > 0 else -eff[i]
            rmin.append(mins[i] - num_l * dxs[i])
            rmax.append(maxs[i] + (d - num_l) * dxs[i])
        rsd = dict(sd, min=rmin, max=rmax, shape=ran_shp, dtype=str(rdt))
        if desc.get('ran_weighting') is not None:
            rsd['weighting'] = {'type': 'const',
                                'value': desc['ran_weighting']}
        ran = build.build_space(rsd)
        op = odl.ResizingOperator(dom, ran, **kwargs)
    else:
        if offs_in is not None:
            kwargs['offset'] = [None if o is None else int(o)
                                for o in offs_in]
        if desc['discr_kwargs'] is not None:
            nb = desc['discr_kwargs']['nodes_on_bdry']
            kwargs['discr_kwargs'] = {
                'nodes_on_bdry': nb if isinstance(nb, bool)
                else [tuple(p) for p in nb]}
        if rdt != dt:
            kwargs.setdefault('discr_kwargs', {})['dtype'] = str(rdt)
        op = odl.ResizingOperator(dom, ran_shp=tuple(ran_shp), **kwargs)
        ran = op.range

    has_nob = any(a or b for a, b in dsides + rsides)
    wdiff = desc['how'] == 'range' and \
        desc.get('ran_weighting') is not None and \
        desc.get('ran_weighting') != desc['weighting']
    wreg = ('nob' if has_nob else 'plain') + \
        (',wdiff' if wdiff else
         (',wconst' if desc['weighting'] is not None else ''))
    sigt = 'ResizingOperator|{},{}'.format(mode, wreg)

    # ---- structure -----------------------------------------------------------
    if op.domain != dom:
        raise Violation('C16|op-structure|' + sigt, 'domain changed')
    if tuple(op.range.shape) != tuple(ran_shp) or op.range.dtype != rdt:
        raise Violation('C16|op-structure|' + sigt,
                        'range shape/dtype {} {}'.format(op.range.shape,
                                                         op.range.dtype))
    got_off = tuple(int(o) for o in op.offset)
    for i in np.arange(nd):
        d = ran_shp[i] - shape[i]
        if eff[i] is None:
            lo_, hi_ = (-d) // 2, (-d) - (-d) // 2
            if got_off[i] not in (lo_, hi_):
                raise Violation('C16|op-offset|' + sigt,
                                'default offset {} for {} -> {}'.format(
                                    got_off[i], shape[i], ran_shp[i]))
            eff[i] = got_off[i]
        elif got_off[i] != eff[i]:
            raise Violation('C16|op-offset|' + sigt,
                            'offset {} expected {} ({} -> {}, given {!r})'
                            ''.format(got_off, eff, shape, ran_shp, offs_in))
    changed = tuple(int(i) for i in np.arange(nd) if shape[i] != ran_shp[i])
    if tuple(op.axes) != changed:
        raise Violation('C16|op-structure|' + sigt,
                        'axes {} expected {}'.format(op.axes, changed))

    # range geometry: same cell sides, grid aligned with the domain grid,
    # limits = grid limits -+ half a cell unless a boundary node sits there
    feps = np.finfo(float).eps
    for i in np.arange(nd):
        d = ran_shp[i] - shape[i]
        num_l = eff[i] if d > 0 else -eff[i]
        num_r = d - num_l
        dx = dxs[i]
        tol = 16 * feps * (abs(mins[i]) + abs(maxs[i]) +
                           (abs(num_l) + abs(num_r) + 1) * dx)
        exp_gmin = gmin[i] - num_l * dx
        exp_gmax = gmax[i] + num_r * dx
        exp_min = exp_gmin - (0.0 if rsides[i][0] else dx / 2)
        exp_max = exp_gmax + (0.0 if rsides[i][1] else dx / 2)
        r = op.range
        got = (float(r.grid.min_pt[i]), float(r.grid.max_pt[i]),
               float(r.min_pt[i]), float(r.max_pt[i]))
        exp = (exp_gmin, exp_gmax, exp_min, exp_max)
        if ran_shp[i] > 1 and not abs(float(r.cell_sides[i]) - dx) <= \
                tol / (ran_shp[i] - 1) + 4 * feps * dx:
            raise Violation('C16|cell-sides|' + sigt,
                            'axis {}: range cell side {!r}, domain {!r}'
                            ''.format(i, float(r.cell_sides[i]), dx))
        if not all(abs(g - e) <= tol for g, e in zip(got, exp)):
            if d < 0 and explicit[i] and eff[i] > 0 and \
                    desc['how'] == 'ran_shp':
                reg = 'shrink,offset>0'
            else:
                reg = '{},{}'.format('grow' if d > 0 else
                                     ('shrink' if d < 0 else 'same'),
                                     'nob' if any(rsides[i]) or
                                     any(dsides[i]) else 'plain')
            v = Violation(
                'C16|range-location|ResizingOperator|' + reg,
                'axis {}: {} -> {} cells, offset {} (given {!r}): range '
                'grid/limits (gmin, gmax, min, max) = {} expected {}; domain '
                '[{}, {}]'.format(i, shape[i], ran_shp[i], eff[i],
                                  None if offs_in is None else offs_in[i],
                                  got, exp, mins[i], maxs[i]))
            if reg == 'shrink,offset>0':
                deferred.append(v)
            else:
                raise v

    # ---- stored constant (in the dtype of the range) and linearity flag -----
    c_ran = np.array(c, dtype=rdt)
    pc = np.asarray(op.pad_const)
    if pc.shape != () or pc.dtype != rdt or not _bits_equal(pc, c_ran):
        raise Violation('C16|pad_const|ResizingOperator|' +
                        ('dtype-differs' if rdt != dt else 'same-dtype'),
                        'op.pad_const = {!r} ({}), given {!r}, range dtype {}'
                        ''.format(op.pad_const, pc.dtype, c, rdt))
    affine = mode == 'constant' and c != 0
    if bool(op.is_linear) != (not affine):
        raise Violation('C16|is-linear|ResizingOperator|' +
                        ('constant,c!=0' if affine else mode),
                        'is_linear = {} for pad_mode {!r}, pad_const {!r}'
                        ''.format(op.is_linear, mode, c))

    # ---- forward ---------------------------------------------------------------
    shape_reg = _shape_region(shape, ran_shp, eff)
    strata = ['op|' + mode, 'op|shape:' + shape_reg,
              'op|ndim:{}'.format(nd), 'op|dtype:' + dtype,
              'op|how:' + desc['how'],
              'op|offset:' + ('none' if offs_in is None else
                              ('partial' if None in offs_in else
                               'explicit')),
              'op|dom_nob:' + ('yes' if any(a or b for a, b in dsides)
                               else 'no'),
              'op|discr_kwargs:' + ('none' if desc['discr_kwargs'] is None
                                    else ('nob' if any(
                                        a or b for a, b in rsides)
                                        else 'plain')),
              'op|ran_dtype:' + ('same' if rdt == dt else
                                 '{}->{}'.format(dt.kind, rdt.kind)),
              'op|weighting:' + ('differ' if wdiff else
                                 ('const' if desc['weighting'] is not None
                                  else 'default')),
              'op|cfg:{}|{}'.format(mode, shape_reg)]
    why = P.violated_precondition(shape, ran_shp, eff, mode, c, rdt,
                                  'forward')
    x_arr = _data(shape, dt, desc['seed'])
    x = dom.element(x_arr)
    x_ran = x_arr.astype(rdt)          # the values in the dtype of the range
    try:
        if desc['op_out']:
            out = op.range.element()
            out.asarray()[...] = 77 if rint else np.nan
            y = op(x, out=out)
            if y is not out:
                raise Violation('C16|out-identity|' + sigt,
                                'op(x, out=out) did not return out')
        else:
            y = op(x)
        raised = None
    except ValueError as e:
        raised = e
    if why is not None:
        if raised is None:
            raise Violation('C16|precondition|ResizingOperator|forward,' +
                            why, 'accepted {} -> {} offset {} mode {} '
                            'pad_const {!r}'.format(shape, ran_shp, eff,
                                                    mode, c))
        strata.append('op|rejected:' + why)
        _raise_deferred(deferred)
        return Outcome('rejected', strata=strata, notes=dict(notes))
    if raised is not None:
        raise Violation('C16|spurious-rejection|ResizingOperator|forward,' +
                        mode, '{} -> {} offset {} pad_const {!r}: {}'.format(
                            shape, ran_shp, eff, c, raised))
    if y not in op.range:
        raise Violation('C16|space|' + sigt, 'result not in range')
    if not _bits_equal(x.asarray(), x_arr):
        raise Violation('C16|input-modified|' + sigt, 'x was modified')
    cast_c = np.asarray(c).astype(rdt) if mode == 'constant' else 0
    ref = P.resize(x_ran, ran_shp, eff, mode, cast_c)
    yv = y.asarray()
    if yv.dtype != rdt:
        raise Violation('C16|shape-dtype|' + sigt,
                        'result dtype {} expected {}'.format(yv.dtype, rdt))
    if mode == 'order1' and not rint:
        tol = 4 * np.finfo(rdt).eps * _order1_growth(shape, ran_shp, eff) * \
            float(np.abs(x_arr).max(initial=0))
        bad = ~(np.abs(yv - ref) <= tol)
    else:
        bad = yv != ref
    if np.any(bad):
        idx = tuple(int(v) for v in np.argwhere(bad)[0])
        raise Violation('C16|forward-value|' + sigt,
                        '{} -> {} offset {}: entry {} got {!r} ref {!r}'
                        ''.format(shape, ran_shp, eff, idx, yv[idx],
                                  ref[idx]))
    bo, bn = P.block_slices(shape, ran_shp, eff)
    if not _bits_equal(yv[bn], x_ran[bo]):
        raise Violation('C16|block|' + sigt, 'block not bit-identical')

    M, b = P.matrix(shape, ran_shp, eff, mode)
    ref_M, ref_off = _realify(M, b * cast_c, rcplx, cplx)
    got_M, got_off = _matrix_of(op, 'C16|forward-matrix|' + sigt)
    if not (np.array_equal(got_M, ref_M) and
            np.array_equal(got_off, ref_off)):
        raise Violation('C16|forward-matrix|' + sigt,
                        '{} -> {} offset {}: matrix/offset differ from the '
                        'reference (max dev {:.3g} / {:.3g})'.format(
                            shape, ran_shp, eff,
                            float(np.abs(got_M - ref_M).max(initial=0)),
                            float(np.abs(got_off - ref_off).max(initial=0))))

    # ---- derivative --------------------------------------------------------------
    deriv = op.derivative(x)
    if affine:
        if not deriv.is_linear or deriv.domain != op.domain or \
                deriv.range != op.range:
            raise Violation('C16|derivative|' + sigt,
                            'derivative of the affine variant: linear={}, '
                            'spaces changed'.format(deriv.is_linear))
        dM, doff = _matrix_of(deriv, 'C16|derivative|' + sigt)
        if not (np.array_equal(dM, ref_M) and not np.any(doff)):
            raise Violation('C16|derivative|' + sigt,
                            'derivative is not the zero-padding operator')
        strata.append('op|affine')
    elif deriv is not op:
        dM, doff = _matrix_of(deriv, 'C16|derivative|' + sigt)
        if not (np.array_equal(dM, ref_M) and not np.any(doff)):
            raise Violation('C16|derivative|' + sigt,
                            'derivative of the linear operator differs')

    # ---- inverse -------------------------------------------------------------------
    inv = op.inverse
    if inv.domain != op.range or inv.range != op.domain:
        raise Violation('C16|inverse|' + sigt, 'inverse maps {!r} -> {!r}'
                        ''.format(inv.domain, inv.range))
    if shape_reg in ('grow', 'same'):
        xb = inv(y)
        if not _bits_equal(xb.asarray(), x_arr):
            raise Violation('C16|inverse|' + sigt,
                            'inverse(op(x)) != x for {} -> {} offset {}'
                            ''.format(shape, ran_shp, eff))
        notes['left_inverse_checked'] += 1
    elif shape_reg == 'shrink':
        why_inv = P.violated_precondition(ran_shp, shape, eff, mode, c, dt,
                                          'forward')
        if why_inv is None and rdt == dt:
            yb = op(inv(y))
            if not _bits_equal(yb.asarray(), yv):
                raise Violation('C16|inverse|' + sigt,
                                'op(inverse(y)) != y for {} -> {} offset {}'
                                ''.format(shape, ran_shp, eff))
            notes['right_inverse_checked'] += 1

    # ---- adjoint ---------------------------------------------------------------------
    nontriv = shape_reg == 'mixed' or any(
        k == 'grow' and l + r >= 2
        for k, l, r in P.pad_widths(shape, ran_shp, eff))
    if affine:
        try:
            op.adjoint
        except NotImplementedError:
            notes['affine_adjoint_refused'] += 1
        else:
            raise Violation('C16|adjoint-of-affine|' + sigt,
                            'affine operator offered an adjoint')
        _raise_deferred(deferred)
        return Outcome('ok', strata=strata, nontrivial=nontriv,
                       notes=dict(notes))
    adj = op.adjoint
    if adj.domain != op.range or adj.range != op.domain:
        raise Violation('C16|adjoint-spaces|' + sigt,
                        'adjoint maps {!r} -> {!r}'.format(adj.domain,
                                                           adj.range))
    if not adj.is_linear:
        raise Violation('C16|is-linear|ResizingOperator.adjoint|' + mode,
                        'adjoint not flagged linear')
    if adj.adjoint is not op:
        raise Violation('C16|adjoint-spaces|' + sigt,
                        'adjoint.adjoint is not the operator')
    N, noff = _matrix_of(adj, 'C16|adjoint-matrix|' + sigt)
    feps = np.finfo(float).eps
    # an explicitly given range has its own weighting constant (its own cell
    # volume, or a constant passed by the user): the adjoint is then the
    # transpose times (range constant / domain constant); the Gram identity
    # below decides whether the multiple is right.  Everywhere else (and on
    # a library that ignores the weightings) it is the exact transpose.
    exact = not np.any(noff) and np.array_equal(N, ref_M.T)
    if not exact and desc['how'] == 'range' and not isint and rdt == dt:
        dom_w = desc['weighting'] if desc['weighting'] is not None \
            else float(np.prod(dxs))
        ran_w = desc.get('ran_weighting')
        s_exp = 1.0 if ran_w is None else ran_w / dom_w
        geom_t = 8 * feps * sum(
            (abs(float(op.range.min_pt[i])) + abs(float(op.range.max_pt[i])))
            / dxs[i] for i in np.arange(nd))
        exact = not np.any(noff) and bool(np.all(
            np.abs(N - s_exp * ref_M.T) <=
            (4 * np.finfo(dt).eps + geom_t) * s_exp * np.abs(ref_M.T)))
        if exact:
            strata.append('op|adjoint-scaled-transpose')
    if not exact:
        raise Violation('C16|adjoint-matrix|' + sigt,
                        '{} -> {} offset {}: adjoint matrix is not the '
                        'transpose (max dev {:.3g})'.format(
                            shape, ran_shp, eff,
                            float(np.abs(N - ref_M.T).max(initial=0))))
    strata.append('op|adjoint-evaluated')
    nontriv = nontriv or shape_reg != 'same'
    if not isint and not rint and rcplx == cplx:
        GX, GY = flat.gram(op.domain), flat.gram(op.range)
        lhs, rhs = N.T @ GX, GY @ got_M
        scale = max(np.abs(lhs).max(initial=0), np.abs(rhs).max(initial=0),
                    1e-300)
        defect = float(np.abs(lhs - rhs).max(initial=0) / scale)
        # an explicitly given range computes its own cell volume from its
        # own grid stride: relative deviation of a few ulp(coordinate)/cell
        geom = 8 * feps * sum(
            (abs(float(op.range.min_pt[i])) + abs(float(op.range.max_pt[i])))
            / dxs[i] for i in np.arange(nd)) if desc['how'] == 'range' else 0
        if not defect <= 64 * max(np.finfo(dt).eps,
                                  np.finfo(rdt).eps) + geom:
            v = Violation('C16|gram|' + sigt,
                          '<Ax,y>_ran != <x,A*y>_dom: Gram defect {:.3g} '
                          'for {} -> {} offset {} (domain nodes_on_bdry '
                          '{!r}, discr_kwargs {!r})'.format(
                              defect, shape, ran_shp, eff, desc['nob'],
                              desc['discr_kwargs']))
            if has_nob or wdiff:
                deferred.append(v)
            else:
                raise v
        strata.append('op|gram:' + wreg)
    _raise_deferred(deferred)
    return Outcome('ok', strata=strata, nontrivial=nontriv,
                   notes=dict(notes))


def _raise_deferred(deferred):
    if deferred:
        raise deferred[0]


def run_case(desc):
    if desc['kind'] == 'array':
        return _run_array(desc)
    if desc['kind'] == 'op':
        return _run_op(desc)
    raise HarnessError('unknown case kind')


REQUIRED_STRATA = (
    ['array|' + m for m in P.MODES] + ['op|' + m for m in P.MODES] +
    ['array|shape:grow', 'array|shape:shrink', 'array|shape:mixed',
     'array|ndim:1', 'array|ndim:2', 'array|ndim:3', 'array|out:F',
     'array|out:strided', 'array|out_dtype:wider', 'array|order:F',
     'array|adjoint-evaluated', 'array|rejected:symmetric-pad-too-long',
     'array|rejected:periodic-pad-too-long', 'array|rejected:order0-needs-1',
     'array|rejected:order1-needs-2',
     'array|rejected:pad_const-not-castable',
     'array|adjoint-rejected:adjoint-needs-zero-pad_const',
     'op|shape:grow', 'op|shape:shrink', 'op|shape:mixed', 'op|how:range',
     'op|offset:none', 'op|offset:partial', 'op|dom_nob:yes',
     'op|discr_kwargs:nob', 'op|discr_kwargs:plain', 'op|weighting:const',
     'op|weighting:differ',
     'op|affine', 'op|adjoint-evaluated', 'op|gram:plain',
     'array|offset-on-unchanged-axis', 'array|offset:scalar',
     'op|ran_dtype:i->f', 'op|ran_dtype:f->f', 'op|ran_dtype:f->c'])
