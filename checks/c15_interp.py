"""C15 - sampling and interpolation.

Four case families (``mode``):

``sample``    callables from an exactly rounded expression family, handed to
              ``space.element`` and to the wrapped dual-use sampling function
              in every calling style; oracle: point-by-point scalar
              evaluation, bit-for-bit.  In two of five cases the *same
              callable object* (or its space) has been used before: it is
              first discretized in 1-3 variant spaces (same domain with a
              narrower / wider / complex dtype in both orders,
              ``space.astype``, another shape, another domain, the same
              space again, other keyword parameters, a sibling callable of
              the same code in the same space), every result is checked, and
              the case proper must not depend on that history; elements
              sampled earlier stay intact and separate.
``interp``    nearest / linear / per-axis interpolators on generated grids
              and value arrays against ``vlib.ref.interp`` (brute-force
              nearest node, right neighbour on ties, multilinear blend with
              the zero node one cell outside), for mesh / point-array /
              single-point input, ``out=``, all value dtypes; affine
              exactness; node reproduction.
``resample``  ``Resampling`` onto the same / another grid of the same domain,
              built directly or as ``inverse`` / ``adjoint`` of the opposite
              resampling, optionally after a call with another element.
``deform``    ``linear_deform`` (interpolation at displaced grid points) and
              the deformation operators (real and complex templates, default
              and explicit ``domain=`` / ``templ_space=``), optionally after
              a call with another argument.

Every evaluation is followed by an "inputs unchanged" clause (evaluation
points, node values, coordinate vectors, templates, displacement fields).
"""
import itertools

import numpy as np
from hypothesis import strategies as st

from vlib import build, strategies as vs
from vlib.core import Violation, Outcome, HarnessError, import_odl
from vlib.ref import interp as ref
from vlib.ref.interp import EPS, LD

odl = import_odl()
from odl.discr.discr_utils import (  # noqa: E402
    nearest_interpolator, linear_interpolator, per_axis_interpolator,
    sampling_function, point_collocation)

PROPERTY = 'C15'
TECHNIQUE = ('Hypothesis property-based testing against NumPy-only reference '
             'models: point-wise scalar evaluation of an exactly rounded '
             'expression family (sampling, bit-for-bit) and a brute-force '
             'nearest / multilinear interpolation model; differential across '
             'calling conventions; descriptor replay')
LEVEL_TEXT = ('Generated-input search over grids (1-3 axes, uniform and '
              'non-uniform, dyadic lattice so that ties are exact, and '
              'generic), value dtypes (float32/64, complex64/128, integer, '
              'strings for nearest), per-axis scheme combinations, evaluation '
              'points (nodes, exact midpoints, interior, up to one cell '
              'outside) and all calling conventions (single point, (d, N) '
              'array, sparse mesh, out=); sampling of callables in twenty '
              'calling styles compared bit-for-bit with point-wise '
              'evaluation, also after the same callable object has been '
              'discretized in other spaces (other dtype / shape / domain / '
              'keyword parameters) so that results cannot depend on the '
              'history of the callable or the space; Resampling (also via '
              'inverse / adjoint, repeated calls) and linear_deform / the '
              'deformation operators against the same model; inputs are '
              'left unchanged. Exploration, not proof.')
LEVEL_NOTE = ('Trusted: NumPy (long double), Hypothesis, vlib/ref/interp.py '
              '(never imports odl), IEEE-exact +,-,*,/,sqrt of NumPy and '
              'Python floats. Grid coordinates are taken from the library '
              'object (grids are C14\'s business).')
DESIGN_REF = 'DESIGN.md section 5, C15'
BUDGET = {'quick': 12000, 'thorough': 120000}
TOLERANCES = {
    'sampling': 'bitwise equal to point-by-point scalar evaluation (== on the '
                'values, so -0.0 == 0.0)',
    'nearest': 'exactly the value of an acceptable node; acceptable = the '
               'brute-force closest node, right neighbour on exact ties '
               '(dyadic lattice); off the lattice nodes within 8 ulp of the '
               'minimal distance are all acceptable',
    'linear': '|got-ref| <= (8+2^d)*eps(value dtype)*sum|w||f| + '
              '2*sum_axes(4*eps64*(|x|+|c_i|+|c_i+1|)/h)*max|f| + '
              '(2+2^d)*smallest_subnormal(value dtype); exact at nodes',
    'affine': '|got-(a.x+b)| <= (8+2^d+2d)*eps*scale + 2*dt*scale, scale = '
              '|b| + sum|a_i| max|c_i|',
    'conventions': 'single point / (d,N) array / mesh / out= results are '
                   'bitwise identical',
    'history': 'elements sampled after earlier uses of the same callable '
               'object are bitwise equal to point-by-point evaluation in the '
               'dtype of their own space; earlier elements / results are '
               'bitwise unchanged afterwards and share no memory with later '
               'ones',
    'inputs': 'evaluation points, node values, coordinate vectors, templates '
              'and displacement fields are bitwise unchanged by evaluation',
}
ASSUMPTIONS = [
    'evaluation points at most one cell (the outermost spacing) outside the '
    'hull of the grid; farther out is undocumented',
    'interpolation grids have >= 2 points per axis (one-point axes are not '
    'interpolated); sampling includes one-point axes',
    'callables return float / complex consistently (np.vectorize infers its '
    'output type from the first point)',
    'point arrays are passed as (d, N) (points are columns), 1-d also as '
    '(N,) with N >= 2',
    'a callable is reused only in spaces whose dtype can hold its values '
    '(complex-valued callables in complex spaces only; a vectorize wrapper '
    'with explicit otypes only in spaces of that dtype)',
    'regions of the known findings C15-K3 / K7 / K8 (in-place evaluation in '
    '1-d of ufuncs, keyword-only out, lists with ufunc members) are '
    'exercised in every other such case only, so that the remaining clauses '
    'keep being checked there',
    'integer value arrays with linear / per-axis schemes (F17, fixed) are '
    'compared with the float blend; out= is not exercised there (out must '
    'have the integer dtype of the values and cannot hold the blend)',
]
RULE = ('Hypothesis draws a mode (sample 2/7, interp 3/7, resample 1/7, '
        'deform 1/7) and its data; 2/5 of the sample cases carry 1-3 prior '
        'uses of the same callable object, 1/2 of the resample / deformation '
        'operator cases a prior call with another argument; non-trivial = at '
        'least one oracle comparison evaluated and (>= 2 axes or non-uniform '
        'axis or mixed per-axis scheme or a tie / outside point present or a '
        'non-native calling style or a prior use); distinct by sha1 of the '
        'case descriptor')

REJECT = (ValueError, TypeError, IndexError)
CONSTS = [0.0, 1.0, -1.0, 2.0, 0.5, -0.25, 3.0, 1.5, -2.5, 0.1, 7.0, 0.3]

# --------------------------------------------------------------------------
# strategies


def _rfloat(lo, hi, nd=4):
    return st.floats(lo, hi, allow_nan=False, allow_infinity=False).map(
        lambda v: float(round(v, nd)))


@st.composite
def _expr(draw, use, params, depth):
    """Random expression over the coordinates in ``use``."""
    leaf_kinds = (['x'] * 4 if use else []) + ['c'] + (['p'] if params
                                                        else [])
    if depth <= 0 or draw(st.integers(0, 4)) == 0:
        k = draw(st.sampled_from(leaf_kinds))
        if k == 'x':
            return ['x', draw(st.sampled_from(sorted(use)))]
        if k == 'p':
            return ['p', draw(st.sampled_from(sorted(params)))]
        return ['c', draw(st.sampled_from(CONSTS) | _rfloat(-10, 10))]
    op = draw(st.sampled_from(['add', 'add', 'sub', 'mul', 'mul', 'div',
                               'abs', 'neg', 'sqrt', 'sq', 'cube', 'max',
                               'min', 'where']))
    sub = _expr(use, params, depth - 1)
    if op in ('abs', 'neg', 'sq'):
        return [op, draw(sub)]
    if op == 'cube':
        return [op, draw(_expr(use, params, 0))]
    if op == 'sqrt':
        return ['sqrt', ['abs', draw(sub)]]
    if op == 'div':
        return ['div', draw(sub), ['add', ['abs', draw(sub)], ['c', 1.0]]]
    if op == 'where':
        return ['where', draw(sub), draw(sub), draw(sub), draw(sub)]
    return [op, draw(sub), draw(sub)]


DYADIC_STARTS = [0.0, 1.0, -1.0, 0.5, -2.5, 3.0, 0.125, -0.75, 2.0]
DYADIC_INCS = [0.25, 0.5, 1.0, 2.0, 0.75, 1.5]


@st.composite
def _coords(draw, min_n=2, max_n=6, lattice=None):
    """(coordinate list, lattice, uniform?)"""
    if lattice is None:
        lattice = draw(st.sampled_from(['dyadic', 'dyadic', 'generic']))
    n = draw(st.integers(min_n, max_n))
    uniform = draw(st.booleans())
    if lattice == 'dyadic':
        start = draw(st.sampled_from(DYADIC_STARTS))
        incs = [draw(st.sampled_from(DYADIC_INCS))] * (n - 1) if uniform \
            else draw(st.lists(st.sampled_from(DYADIC_INCS), min_size=n - 1,
                               max_size=n - 1))
    else:
        start = draw(_rfloat(-10, 10, 3))
        incs = [draw(_rfloat(0.05, 3.0, 3))] * (n - 1) if uniform else \
            draw(st.lists(_rfloat(0.05, 3.0, 3), min_size=n - 1,
                          max_size=n - 1))
    c = [float(start)]
    for d in incs:
        c.append(float(np.float64(c[-1]) + np.float64(d)))
    return c, lattice, uniform


@st.composite
def _space(draw, min_n=1, max_n=5, dtypes=('float64', 'float32',
                                           'complex128', 'complex64'),
           kinds=('discr', 'discr', 'nonuniform'), max_ndim=3):
    ndim = draw(st.sampled_from([1, 1, 2, 2, 3][:2 * max_ndim - 1]))
    dtype = draw(st.sampled_from(list(dtypes)))
    kind = draw(st.sampled_from(list(kinds)))
    if kind == 'nonuniform':
        vecs, lattices = [], []
        for _ in range(ndim):
            c, lat, _u = draw(_coords(min_n, max_n))
            vecs.append(c)
            lattices.append(lat)
        flag = draw(st.booleans())
        # one-point axes get an explicit unit interval (a zero-extent axis
        # makes the cell volume, hence the space's weighting, zero)
        one = [len(c) == 1 for c in vecs]
        return {'kind': 'discr_nonuniform', 'coords': vecs,
                'min': [c[0] - 0.5 if o else None
                        for c, o in zip(vecs, one)] if any(one) else None,
                'max': [c[0] + 0.5 if o else None
                        for c, o in zip(vecs, one)] if any(one) else None,
                'dtype': dtype,
                'nodes_on_bdry': [[flag and not o, flag and not o]
                                  for o in one]}
    mins, maxs, shape, nob = [], [], [], []
    for _ in range(ndim):
        n = draw(st.integers(min_n, max_n))
        if draw(st.booleans()):
            lo = draw(st.sampled_from(DYADIC_STARTS))
            side = draw(st.sampled_from(DYADIC_INCS))
        else:
            lo = draw(_rfloat(-10, 10, 3))
            side = draw(_rfloat(0.05, 3.0, 3))
        flags = [draw(st.booleans()) and n > 1,
                 draw(st.booleans()) and n > 1]
        if draw(st.booleans()):
            flags = [False, False]
        mins.append(float(lo))
        maxs.append(float(np.float64(lo) + (n - sum(flags) / 2.0) *
                          np.float64(side)))
        shape.append(n)
        nob.append(flags)
    return {'kind': 'discr', 'min': mins, 'max': maxs, 'shape': shape,
            'dtype': dtype, 'nodes_on_bdry': nob, 'exponent': 2.0,
            'weighting': None}


STYLES = ['native', 'vectorize', 'vectorize_otypes', 'out', 'out', 'dual',
          'dual', 'const', 'kwargs', 'kwargs', 'kwargs_vectorize',
          'callable_obj', 'native1d', 'native1d', 'ufunc', 'ufunc',
          'lambda_subset', 'vector', 'vectorize_history', 'identity',
          'dual_kwonly', 'vectorize_obj', 'vector']

# Prior uses of the *same* callable object (or of its space) before the case
# proper: what `space.element(f)` returns must not depend on them.
NO_FUNC2 = ('const', 'ufunc', 'identity', 'vectorize_history')
REUSE_KINDS = ['dtype', 'dtype', 'astype', 'shape', 'domain', 'same',
               'kwargs', 'func2']
SPACE_DTYPES = ['float64', 'float32', 'complex128', 'complex64']


@st.composite
def _reuse_steps(draw, sd, style, cplx_out, params, use, depth):
    """1-3 prior uses.  Every step names the space variant the callable is
    discretized in first (same domain / other dtype in both directions,
    ``space.astype``, other shape, other domain, the very same space, other
    keyword parameters) or a second callable of the same kind discretized in
    the same space."""
    base = sd['dtype']
    if style == 'vectorize_otypes':
        # the output type is part of the callable itself
        dtypes = [base]
    elif cplx_out:
        dtypes = ['complex128', 'complex64']
    else:
        dtypes = list(SPACE_DTYPES)
    others = [t for t in dtypes if t != base]
    steps = []
    for _ in range(draw(st.sampled_from([1, 1, 2, 3]))):
        kind = draw(st.sampled_from(REUSE_KINDS))
        if kind in ('dtype', 'astype') and not others:
            kind = 'shape'
        if kind == 'kwargs' and not params:
            kind = 'dtype' if others else 'domain'
        step = {'kind': kind, 'dtype': base,
                'order': draw(st.sampled_from([None, None, 'C', 'F']))}
        if kind in ('dtype', 'astype'):
            step['dtype'] = draw(st.sampled_from(others))
        elif kind in ('shape', 'domain'):
            step['axis'] = draw(st.integers(0, 2))
            if draw(st.booleans()):
                step['dtype'] = draw(st.sampled_from(dtypes))
        elif kind == 'kwargs':
            step['pass_params'] = draw(st.sampled_from(['all', 'some',
                                                        'none']))
            step['shift'] = draw(st.sampled_from([0.5, -1.0, 2.0]))
        elif kind == 'func2':
            step['real'] = draw(_expr(set(use), set(), depth))
        steps.append(step)
    return steps


@st.composite
def _expr_int(draw, use, depth):
    """Expression that maps integer points to integers (no float
    conversion anywhere): the result type follows the input type."""
    if depth <= 0 or draw(st.integers(0, 3)) == 0:
        if use and draw(st.integers(0, 3)):
            return ['x', draw(st.sampled_from(sorted(use)))]
        return ['c', draw(st.sampled_from([0, 1, -1, 2, 3, -5]))]
    op = draw(st.sampled_from(['add', 'sub', 'mul', 'neg', 'abs', 'max',
                               'min', 'sq']))
    sub = _expr_int(use, depth - 1)
    if op in ('neg', 'abs', 'sq'):
        return [op, draw(sub)]
    return [op, draw(sub), draw(sub)]


@st.composite
def _sample_case(draw):
    sd = draw(_space())
    ndim = len(build.space_shape(sd))
    cplx = np.dtype(sd['dtype']).kind == 'c'
    style = draw(st.sampled_from(STYLES))
    if style in ('native1d', 'ufunc') and ndim != 1:
        style = 'native'
    axes = list(range(ndim))
    if style == 'const':
        use = []
    elif style == 'lambda_subset' and ndim > 1:
        use = draw(st.lists(st.sampled_from(axes), min_size=1,
                            max_size=ndim - 1, unique=True))
    else:
        use = axes if draw(st.integers(0, 3)) else draw(
            st.lists(st.sampled_from(axes), min_size=1, max_size=ndim,
                     unique=True))
    params = {}
    if style in ('kwargs', 'kwargs_vectorize'):
        params = {'a': draw(st.sampled_from(CONSTS)),
                  'b': draw(_rfloat(-5, 5))}
    depth = draw(st.integers(0, 3))
    d = {'mode': 'sample', 'space': sd, 'style': style, 'params': params,
         'pass_params': draw(st.sampled_from(['all', 'some', 'none'])),
         'real': draw(_expr(set(use), set(params), depth)),
         'imag': None}
    if style == 'const':
        d['real'] = ['c', draw(st.sampled_from(CONSTS))]
    if params:
        # the parameters always matter
        d['real'] = ['add', ['mul', ['p', 'a'], d['real']], ['p', 'b']]
    if style == 'vectorize_history':
        # must depend on a coordinate (the type of a constant never changes)
        d['real'] = ['add', ['x', draw(st.sampled_from(axes))],
                     draw(_expr_int(set(use), depth))]
        d['first_point'] = [draw(st.integers(-3, 3)) for _ in range(ndim)]
    if style == 'identity':
        # returns one coordinate array unchanged
        d['real'] = ['x', draw(st.sampled_from(axes))]
    if style == 'ufunc':
        d['ufunc'] = draw(st.sampled_from(['negative', 'absolute', 'square',
                                           'positive']))
    if cplx and draw(st.integers(0, 3)) and style not in (
            'ufunc', 'vectorize_history', 'identity'):
        d['imag'] = draw(_expr(set(use), set(params), max(depth - 1, 0)))
        if style == 'const':
            d['imag'] = ['c', draw(st.sampled_from(CONSTS))]
    if style == 'vector':
        k = draw(st.integers(1, 3))
        d['comps'] = [draw(st.one_of(
            _expr(set(use), set(), 2),
            st.sampled_from(CONSTS).map(lambda v: ['c', v])))
            for _ in range(k)]
        d['vector_form'] = draw(st.sampled_from(['list', 'tuple_func',
                                                 'list_out']))
        # the value shape may be given explicitly for lists as well
        d['vector_out_dtype'] = draw(st.booleans())
        if ndim == 1 and draw(st.booleans()):
            # 1-d specials: NumPy ufuncs as list members; a tuple-valued
            # function of ``x`` itself (not ``x[0]``)
            if d['vector_form'] == 'list':
                d['comps'][draw(st.integers(0, k - 1))] = [
                    'ufunc', draw(st.sampled_from(sorted(UFUNC_EXPR)))]
            elif d['vector_form'] == 'tuple_func':
                d['vector_form'] = 'tuple_func_x1d'
    d['npoints'] = draw(st.integers(1, 5))
    d['seed'] = draw(st.integers(0, 10 ** 6))
    d['reuse'] = []
    if style != 'vector' and draw(st.integers(0, 4)) < 2:
        steps = draw(_reuse_steps(sd, style, cplx and d['imag'] is not None,
                                  params, use, depth))
        for step in steps:
            if step['kind'] == 'func2' and style in NO_FUNC2:
                step['kind'] = 'same'
                step.pop('real', None)
        d['reuse'] = steps
    # 1-d only: the point array is also passed flat, shape (N,), to callables
    # that document it (the vectorisation decorator)
    d['flat1d'] = draw(st.booleans())
    d['default_out_dtype'] = draw(st.integers(0, 3)) == 0
    d['order'] = draw(st.sampled_from([None, None, 'C', 'F']))
    return d


POINT_KINDS = ['node', 'node', 'mid', 'mid', 'in', 'in', 'lo', 'hi', 'near',
               'edge']


@st.composite
def _axis_points(draw, c, lattice, first=False):
    """1-4 evaluation coordinates for one axis: (values, kinds)."""
    n = len(c)
    cf = np.array(c, dtype=np.float64)
    m = draw(st.integers(1, 4))
    vals, kinds = [], []
    for _ in range(m):
        k = draw(st.sampled_from(POINT_KINDS))
        i = draw(st.integers(0, n - 2))
        h = cf[i + 1] - cf[i]
        if k == 'node':
            v = cf[draw(st.integers(0, n - 1))]
        elif k == 'mid':
            v = (cf[i] + cf[i + 1]) / 2.0
        elif k == 'in':
            if lattice == 'dyadic':
                v = cf[i] + draw(st.integers(1, 15)) / 16.0 * h
            else:
                v = cf[i] + draw(_rfloat(0.01, 0.99)) * h
        elif k == 'near':
            mid = (cf[i] + cf[i + 1]) / 2.0
            sgn = draw(st.sampled_from([-1.0, 1.0]))
            if lattice == 'dyadic':
                v = mid + sgn * h / 64.0
            else:
                v = mid
                for _ in range(draw(st.integers(1, 3))):
                    v = np.nextafter(v, sgn * np.inf)
        elif k == 'edge':
            v = cf[0] if draw(st.booleans()) else cf[-1]
        else:
            frac = draw(st.sampled_from([0.125, 0.25, 0.5, 0.5, 0.75, 1.0]))
            if lattice != 'dyadic' and frac != 1.0:
                frac = draw(_rfloat(0.01, 0.95))
            if k == 'lo':
                v = cf[0] - frac * (cf[1] - cf[0])
                # stay inside the documented range despite rounding
                v = max(v, cf[0] - (cf[1] - cf[0]))
            else:
                v = cf[-1] + frac * (cf[-1] - cf[-2])
                v = min(v, cf[-1] + (cf[-1] - cf[-2]))
        vals.append(float(v))
        kinds.append(k)
    return vals, kinds


@st.composite
def _values(draw, shape, dtype):
    size = int(np.prod(shape, dtype=int))
    if dtype == 'U':
        return {'dtype': 'U', 'seed': draw(st.integers(0, 10 ** 6)),
                'shape': list(shape)}
    if size <= 16:
        return draw(vs.array_descs(shape, dtype, orders=('C', 'C', 'F',
                                                         'strided'),
                                   lo=-100, hi=100))
    return draw(vs.array_descs(shape, dtype, orders=('C', 'F', 'strided'),
                               lo=-100, hi=100, scale=10.0))


VALUE_DTYPES = ['float64', 'float64', 'float64', 'float32', 'float32',
                'complex128', 'complex128', 'complex64', 'int64', 'int32',
                'U']


@st.composite
def _interp_case(draw):
    ndim = draw(st.sampled_from([1, 1, 2, 2, 2, 3]))
    coords, lattices = [], []
    lattice = draw(st.sampled_from(['dyadic', 'dyadic', 'generic']))
    uniform_flags = []
    for _ in range(ndim):
        c, lat, uni = draw(_coords(2, 6 if ndim < 3 else 4, lattice))
        coords.append(c)
        uniform_flags.append(uni)
    dtype = draw(st.sampled_from(VALUE_DTYPES))
    kind = draw(st.sampled_from(['nearest', 'nearest', 'linear', 'linear',
                                 'linear', 'peraxis', 'peraxis', 'peraxis']))
    if dtype == 'U':
        kind = 'nearest'
    if kind == 'peraxis':
        form = draw(st.sampled_from(['list', 'list', 'list', 'string']))
        if form == 'string':
            schemes = draw(st.sampled_from(['nearest', 'linear', 'Linear',
                                            'NEAREST']))
        else:
            schemes = [draw(st.sampled_from(['nearest', 'linear']))
                       for _ in range(ndim)]
            if ndim > 1 and len(set(schemes)) == 1 and draw(st.booleans()):
                schemes[draw(st.integers(0, ndim - 1))] = \
                    'linear' if schemes[0] == 'nearest' else 'nearest'
    else:
        schemes = kind
    pts, kinds = [], []
    for c in coords:
        v, k = draw(_axis_points(c, lattice, first=not pts and ndim > 1))
        pts.append(v)
        kinds.append(k)
    shape = [len(c) for c in coords]
    d = {'mode': 'interp', 'coords': coords, 'lattice': lattice,
         'uniform': uniform_flags, 'dtype': dtype, 'kind': kind,
         'schemes': schemes, 'pts': pts, 'pt_kinds': kinds,
         'values': draw(_values(shape, dtype)),
         'coord_form': draw(st.sampled_from(['array', 'array', 'list',
                                             'tuple'])),
         'perm': draw(st.sampled_from(['id', 'reverse', 'roll']))}
    if kind == 'linear' and dtype in ('float64', 'complex128', 'float32') \
            and draw(st.booleans()):
        d['affine'] = {'a': [draw(st.sampled_from(CONSTS) | _rfloat(-5, 5))
                             for _ in range(ndim)],
                       'b': draw(st.sampled_from(CONSTS) | _rfloat(-50, 50))}
    return d


@st.composite
def _resample_case(draw):
    sd = draw(_space(min_n=2, max_n=5, dtypes=('float64', 'float64',
                                                'float32', 'complex128'),
                     kinds=('discr',)))
    ndim = len(sd['shape'])
    target = draw(st.sampled_from(['same', 'same', 'refine2', 'refine3',
                                   'other', 'other', 'coarse']))
    tshape, tnob = [], []
    for n in sd['shape']:
        if target == 'same':
            tshape.append(n)
        elif target == 'refine2':
            tshape.append(2 * n)
        elif target == 'refine3':
            tshape.append(3 * n)
        elif target == 'coarse':
            tshape.append(max(1, n // 2))
        else:
            tshape.append(draw(st.integers(1, 7)))
        tnob.append([draw(st.booleans()) and tshape[-1] > 1,
                     draw(st.booleans()) and tshape[-1] > 1])
    if target == 'same':
        tnob = [list(f) for f in sd['nodes_on_bdry']]
    elif draw(st.booleans()):
        tnob = [[False, False] for _ in range(ndim)]
    interp = draw(st.sampled_from(['nearest', 'linear', 'linear', 'list']))
    if interp == 'list':
        interp = [draw(st.sampled_from(['nearest', 'linear']))
                  for _ in range(ndim)]
    return {'mode': 'resample', 'space': sd, 'target': target,
            'tshape': tshape, 'tnob': tnob, 'interp': interp,
            'x': draw(vs.element_descs(sd, orders=('C', 'C', 'F'), lo=-100,
                                       hi=100, scale=10.0)),
            'out': draw(st.booleans()),
            'direction': draw(st.sampled_from(['forward', 'forward',
                                               'inverse', 'adjoint'])),
            'prior_call': draw(st.booleans())}


@st.composite
def _deform_case(draw):
    sd = draw(_space(min_n=2, max_n=4, dtypes=('float64', 'float64',
                                                'float32', 'complex128'),
                     kinds=('discr',), max_ndim=3))
    ndim = len(sd['shape'])
    size = int(np.prod(sd['shape'], dtype=int))
    form = draw(st.sampled_from(['string', 'list', 'list', 'tuple']))
    if form == 'string':
        interp = draw(st.sampled_from(['nearest', 'linear']))
    else:
        # every combination of per-axis schemes is equally likely
        combos = list(itertools.product(['nearest', 'linear'], repeat=ndim))
        interp = list(draw(st.sampled_from(combos)))
    zero = draw(st.integers(0, 4)) == 0
    disp = [[0 if zero else draw(st.integers(-8, 8)) for _ in range(size)]
            for _ in range(ndim)]
    return {'mode': 'deform', 'space': sd, 'interp': interp, 'disp8': disp,
            'interp_form': form,
            'via': draw(st.sampled_from(['function', 'fixed_disp',
                                         'fixed_disp', 'fixed_templ',
                                         'fixed_disp_inverse',
                                         'fixed_disp_adjoint'])),
            'out': draw(st.booleans()),
            'prior_call': draw(st.booleans()),
            'spaces_explicit': draw(st.booleans()),
            'disp_order': draw(st.sampled_from(['C', 'F', 'strided'])),
            'x': draw(vs.element_descs(sd, orders=('C', 'F', 'strided'),
                                       lo=-100, hi=100, scale=10.0))}


def strategy(tier):
    return st.one_of(_sample_case(), _sample_case(), _interp_case(),
                     _interp_case(), _interp_case(), _resample_case(),
                     _deform_case())


# --------------------------------------------------------------------------
# vectorised evaluation of the expression family (the *input* callables)

def eval_vec(e, X, params):
    op = e[0]
    if op == 'x':
        return X(e[1])
    if op == 'c':
        return e[1]
    if op == 'p':
        return params[e[1]]
    if op in ref.UNARY:
        a = eval_vec(e[1], X, params)
        if op == 'abs':
            return np.abs(a)
        if op == 'neg':
            return -a
        if op == 'sqrt':
            return np.sqrt(a)
        if op == 'sq':
            return a * a
        return a * a * a
    if op in ref.BINARY:
        a = eval_vec(e[1], X, params)
        b = eval_vec(e[2], X, params)
        if op == 'add':
            return a + b
        if op == 'sub':
            return a - b
        if op == 'mul':
            return a * b
        if op == 'div':
            return a / b
        if op == 'max':
            return np.maximum(a, b)
        return np.minimum(a, b)
    if op == 'where':
        return np.where(eval_vec(e[1], X, params) < eval_vec(e[2], X, params),
                        eval_vec(e[3], X, params), eval_vec(e[4], X, params))
    raise HarnessError('unknown expression node {!r}'.format(op))


def eval_raw(e, x):
    """Scalar evaluation that keeps the input's number type."""
    op = e[0]
    if op == 'x':
        return x[e[1]]
    if op == 'c':
        return e[1]
    a = eval_raw(e[1], x)
    if op == 'neg':
        return -a
    if op == 'abs':
        return abs(a)
    if op == 'sq':
        return a * a
    b = eval_raw(e[2], x)
    if op == 'add':
        return a + b
    if op == 'sub':
        return a - b
    if op == 'mul':
        return a * b
    if op == 'max':
        return a if a >= b else b
    if op == 'min':
        return a if a <= b else b
    raise HarnessError('unknown raw node {!r}'.format(op))


def _vec_value(real, imag, X, params, cplx):
    re = eval_vec(real, X, params)
    if not cplx or imag is None:
        return re
    return re + 1j * eval_vec(imag, X, params)


def passed_params(desc, mode, shift):
    """Keyword arguments handed over at call time (they differ from the
    defaults in the signature) and the resulting effective parameters."""
    defaults = dict(desc['params'])
    passed = {}
    if desc['style'] in ('kwargs', 'kwargs_vectorize'):
        names = sorted(defaults)
        chosen = names if mode == 'all' else names[:1] if mode == 'some' \
            else []
        for nm in chosen:
            passed[nm] = float(defaults[nm]) + shift
    effective = dict(defaults)
    effective.update(passed)
    return passed, effective


def make_callable(desc, cplx):
    """The callable handed to ODL, and the keyword arguments to pass."""
    style = desc['style']
    real, imag = desc['real'], desc['imag']
    defaults = dict(desc['params'])
    passed, effective = passed_params(desc, desc['pass_params'], 0.5)

    def idx(x):
        return lambda i: x[i]

    if style == 'vectorize_history':
        @odl.util.vectorize
        def f(x):
            return eval_raw(real, x)
        # history: first used at an integer point / integer point array
        fp = desc['first_point']
        first = f(fp[0] if len(fp) == 1 else list(fp))
        want = eval_raw(real, fp)
        if not np.asarray(first).shape == () or first != want:
            raise Violation('C15|sample|vectorize-direct|int-point',
                            'f({}) = {!r} expected {!r}'.format(fp, first,
                                                                want))
        if len(fp) > 1:
            f(np.array([fp, fp]).T)
    elif style in ('native', 'lambda_subset', 'const', 'identity'):
        if style == 'const':
            const = ref.value_at(real, imag, [], {}, cplx and
                                 imag is not None)

            def f(x):
                return const
        else:
            def f(x):
                return _vec_value(real, imag, idx(x), defaults, cplx)
    elif style == 'native1d':
        def f(x):
            return _vec_value(real, imag, lambda i: x, defaults, cplx)
    elif style in ('vectorize', 'vectorize_otypes', 'kwargs_vectorize'):
        scal_cplx = cplx and imag is not None
        if style == 'vectorize':
            @odl.util.vectorize
            def f(x):
                return ref.value_at(real, imag, x, defaults, scal_cplx)
        elif style == 'vectorize_otypes':
            @odl.util.vectorize(otypes=[desc['space']['dtype']])
            def f(x):
                return ref.value_at(real, imag, x, defaults, scal_cplx)
        else:
            a0, b0 = defaults['a'], defaults['b']

            @odl.util.vectorize
            def f(x, a=a0, b=b0):
                return ref.value_at(real, imag, x, {'a': a, 'b': b},
                                    scal_cplx)
    elif style == 'out':
        def f(x, out):
            out[:] = _vec_value(real, imag, idx(x), defaults, cplx)
    elif style == 'dual':
        def f(x, out=None):
            val = _vec_value(real, imag, idx(x), defaults, cplx)
            if out is None:
                return val
            out[:] = val
            return out
    elif style == 'dual_kwonly':
        def f(x, *, out=None):
            val = _vec_value(real, imag, idx(x), defaults, cplx)
            if out is None:
                return val
            out[:] = val
            return out
    elif style == 'vectorize_obj':
        scal_cplx = cplx and imag is not None

        class Scal(object):
            # no __name__: the decorator has to provide one
            def __call__(self, x):
                return ref.value_at(real, imag, x, defaults, scal_cplx)
        f = odl.util.vectorize(Scal())
    elif style == 'kwargs':
        a0, b0 = defaults['a'], defaults['b']

        def f(x, a=a0, b=b0):
            return _vec_value(real, imag, idx(x), {'a': a, 'b': b}, cplx)
    elif style == 'callable_obj':
        class Func(object):
            def __call__(self, x):
                return _vec_value(real, imag, idx(x), defaults, cplx)
        f = Func()
    elif style == 'ufunc':
        f = getattr(np, desc['ufunc'])
    else:
        raise HarnessError('unknown style ' + style)
    return f, passed, effective


UFUNC_EXPR = {'negative': ['neg', ['x', 0]], 'absolute': ['abs', ['x', 0]],
              'square': ['sq', ['x', 0]], 'positive': ['x', 0]}


# --------------------------------------------------------------------------
# helpers

def _same_values(a, b):
    """Element-wise ``==`` of two arrays of identical shape and dtype."""
    a, b = np.asarray(a), np.asarray(b)
    return a.shape == b.shape and a.dtype == b.dtype and \
        bool(np.all(a == b))


def _first_diff(a, b):
    a, b = np.asarray(a), np.asarray(b)
    if a.shape != b.shape:
        return 'shape {} vs {}'.format(a.shape, b.shape)
    if a.dtype != b.dtype:
        return 'dtype {} vs {}'.format(a.dtype, b.dtype)
    bad = np.argwhere(~(a == b))
    if len(bad) == 0:
        return 'no difference'
    i = tuple(int(v) for v in bad[0])
    return 'entry {}: {!r} vs {!r} ({} entries differ)'.format(
        i, a[i], b[i], len(bad))


def _mesh(vecs):
    n = len(vecs)
    out = []
    for ax, v in enumerate(vecs):
        shape = [1] * n
        shape[ax] = len(v)
        out.append(np.ascontiguousarray(
            np.asarray(v, dtype=float).reshape(shape)))
    return tuple(out)


def _points_array(vecs):
    """(d, N) array of all tensor-product points, C order."""
    grids = np.meshgrid(*[np.asarray(v, dtype=float) for v in vecs],
                        indexing='ij')
    return np.stack([g.ravel() for g in grids], axis=0)


# --------------------------------------------------------------------------
# mode: sample

VECTORIZE_STYLES = ('vectorize', 'vectorize_otypes', 'kwargs_vectorize',
                    'vectorize_history', 'vectorize_obj')


def variant_space(sd, space, step):
    """The space of a prior use: a variant of the space of the case."""
    kind = step['kind']
    if kind in ('same', 'kwargs', 'func2'):
        return space
    if kind == 'astype':
        return space.astype(step['dtype'])
    v = dict(sd, dtype=step['dtype'])
    if kind == 'dtype':
        return build.build_space(v)
    ndim = len(build.space_shape(sd))
    ax = step['axis'] % ndim
    if sd['kind'] == 'discr':
        if kind == 'shape':
            v['shape'] = [n + (i == ax) for i, n in enumerate(sd['shape'])]
        else:
            v['min'] = [m + 0.5 * (i == ax) for i, m in enumerate(sd['min'])]
            v['max'] = [m + 1.0 * (i == ax) for i, m in enumerate(sd['max'])]
        return build.build_space(v)
    # non-uniform: append a node / move the nodes of one axis
    coords = [list(c) for c in sd['coords']]
    if kind == 'shape':
        cand = [i for i, c in enumerate(coords) if len(c) > 1]
        if not cand:
            return build.build_space(v)
        ax = cand[step['axis'] % len(cand)]
        coords[ax].append(coords[ax][-1] + 0.75)
    else:
        coords[ax] = [c + 0.5 for c in coords[ax]]
        for key in ('min', 'max'):
            if sd.get(key) is not None:
                v[key] = [None if m is None else m + 0.5 * (i == ax)
                          for i, m in enumerate(sd[key])]
    v['coords'] = coords
    return build.build_space(v)


def _sample_once(space_k, f, passed, what, order=None):
    try:
        elem = space_k.element(f, order=order, **passed)
    except REJECT as e:
        return None, '{} raises {}: {}'.format(what, type(e).__name__, e)
    if elem not in space_k:
        return None, '{}: result is not an element of the space'.format(what)
    if order is not None and not elem.asarray().flags[order + '_CONTIGUOUS']:
        return None, '{}: element(f, order={!r}) is not {}-contiguous'.format(
            what, order, order)
    return elem, None


def history_signature(desc, cplx, space_desc_fn, passed, expected, clause,
                      sig_tail, detail, earlier):
    """Classify a sampling failure that happened after earlier uses of the
    callable / space: if a fresh callable object sampled in a freshly built
    space gives the expected values, the earlier uses are the cause."""
    if earlier:
        f2 = make_callable(desc, cplx)[0]
        elem, err = _sample_once(space_desc_fn(), f2, passed, 'fresh')
        if err is None and _same_values(elem.asarray(), expected):
            return Violation(
                'C15|sample|history-dependent|' + sig_tail,
                'space.element(f) depends on earlier uses {} of the same '
                'callable / space (a fresh callable in a fresh space gives '
                'the function values): {}'.format(earlier, detail))
    if not earlier and desc['style'] == 'ufunc':
        # a NumPy ufunc is one module-level object shared by all cases
        detail += (' [the callable is the module-level object np.{}: if this '
                   'descriptor passes when replayed alone, the result depends '
                   'on uses of that object by earlier cases of the same '
                   'process]'.format(desc['ufunc']))
    return Violation('C15|sample|{}|{}'.format(clause, sig_tail), detail)


def run_prior_uses(desc, sd, space, f, passed, cplx, sig_tail, strata):
    """Discretize the callable of the case (or a sibling callable) in the
    variant spaces named by ``desc['reuse']``; every result must be the
    function values at the nodes of *that* space in *its* dtype.  Returns
    the elements with their expected values and the kinds used."""
    real, imag = desc['real'], desc['imag']
    if desc['style'] == 'ufunc':
        real, imag = UFUNC_EXPR[desc['ufunc']], None
    kept, earlier = [], []
    for step in desc.get('reuse') or []:
        kind = step['kind']
        space_k = variant_space(sd, space, step)
        if kind == 'astype' and (
                space_k.dtype != np.dtype(step['dtype']) or
                space_k.partition != space.partition):
            raise Violation(
                'C15|sample|astype-space|{}->{}'.format(sd['dtype'],
                                                        step['dtype']),
                'space.astype({!r}) is {!r}'.format(step['dtype'], space_k))
        f_k, passed_k, real_k = f, passed, real
        effective_k = passed_params(desc, desc['pass_params'], 0.5)[1]
        desc_k = desc
        if kind == 'kwargs':
            passed_k, effective_k = passed_params(desc, step['pass_params'],
                                                  step['shift'])
        elif kind == 'func2':
            real_k = step['real']
            if desc['params']:
                real_k = ['add', ['mul', ['p', 'a'], real_k], ['p', 'b']]
            desc_k = dict(desc, real=real_k)
            f_k = make_callable(desc_k, cplx)[0]
        vecs_k = [np.array(v, dtype=float, copy=True)
                  for v in space_k.grid.coord_vectors]
        expected_k = ref.sample(real_k, imag, vecs_k, effective_k,
                                space_k.dtype)
        label = 'prior use {} ({}, dtype {}, shape {})'.format(
            len(earlier) + 1, kind, space_k.dtype, space_k.shape)
        elem, err = _sample_once(space_k, f_k, passed_k, label,
                                 step.get('order'))
        if step.get('order'):
            strata.append('order:' + step['order'])
        if err is None and not _same_values(elem.asarray(), expected_k):
            err = '{}: {}; real={!r} imag={!r}'.format(
                label, _first_diff(elem.asarray(), expected_k), real_k, imag)
        if err is not None:
            part = space_k.partition
            dt_k = space_k.dtype
            raise history_signature(
                desc_k, cplx,
                lambda: odl.DiscretizedSpace(
                    part, odl.tensor_space(part.shape, dtype=dt_k)),
                passed_k, expected_k, 'element-values', sig_tail, err,
                list(earlier))
        kept.append((elem, expected_k, label))
        earlier.append('{}:{}'.format(kind, space_k.dtype))
        strata.append('reuse:' + kind)
        if kind in ('dtype', 'astype'):
            a, b = np.dtype(step['dtype']), np.dtype(sd['dtype'])
            strata.append('reuse-dtype:' + (
                'narrow-then-wide' if a.itemsize < b.itemsize else
                'wide-then-narrow' if a.itemsize > b.itemsize else
                'real-then-complex' if b.kind == 'c' else
                'complex-then-real'))
    return kept, earlier


def run_sample(desc):
    sd = desc['space']
    space = build.build_space(sd)
    dtype = np.dtype(sd['dtype'])
    cplx = dtype.kind == 'c'
    ndim = space.ndim
    style = desc['style']
    vecs = [np.array(v, dtype=float, copy=True)
            for v in space.grid.coord_vectors]
    shape = tuple(len(v) for v in vecs)
    strata = ['mode:sample', 'style:' + style, 'ndim:{}'.format(ndim),
              'dtype:' + sd['dtype'], 'space:' + sd['kind']]
    if style == 'vector':
        return run_sample_vector(desc, space, vecs, strata)
    real, imag = desc['real'], desc['imag']
    if style == 'ufunc':
        real, imag = UFUNC_EXPR[desc['ufunc']], None
    f, passed, effective = make_callable(desc, cplx)
    expected = ref.sample(real, imag, vecs, effective, dtype)
    used = ref.coords_used(real) | (ref.coords_used(imag) if imag else set())
    strata.append('coords:' + ('none' if not used else 'all'
                               if len(used) == ndim else 'subset'))
    strata.append('output:' + ('complex' if cplx and imag is not None else
                               'real-into-complex' if cplx else 'real'))
    if 1 in shape:
        strata.append('one-point-axis')
    sig_tail = '{}|{}'.format(style, 'cplx' if cplx else 'real')

    # (0) earlier uses of the same callable object in other / the same
    # spaces: the case proper must not depend on them
    prior, earlier = run_prior_uses(desc, sd, space, f, passed, cplx,
                                    sig_tail, strata)
    if prior:
        strata.append('reuse:any')

    def fresh_space():
        return build.build_space(sd)

    # (1) space.element(callable)
    order = desc.get('order')
    if order:
        strata.append('order:' + order)
    try:
        elem = space.element(f, order=order, **passed)
    except REJECT as e:
        raise history_signature(
            desc, cplx, fresh_space, passed, expected, 'element-raises',
            sig_tail, '{}: {} (real={!r} imag={!r})'.format(
                type(e).__name__, e, real, imag), earlier)
    if elem not in space:
        raise Violation('C15|sample|element-space|' + sig_tail,
                        'result is not an element of the space')
    got = elem.asarray()
    if order and not got.flags[order + '_CONTIGUOUS']:
        raise Violation('C15|sample|element-order|' + sig_tail,
                        'element(f, order={!r}) is not {}-contiguous'.format(
                            order, order))
    if not _same_values(got, expected):
        raise history_signature(
            desc, cplx, fresh_space, passed, expected, 'element-values',
            sig_tail, '{}; real={!r} imag={!r} params={!r}'.format(
                _first_diff(got, expected), real, imag, effective), earlier)
    if len(passed) and style.startswith('kwargs'):
        strata.append('kwargs-passed:{}'.format(len(passed)))

    # (2) the wrapped dual-use function, called directly
    if desc.get('default_out_dtype') and sd['dtype'] == 'float64':
        # out_dtype is optional: a single callable is float64-valued then
        func = sampling_function(f, space.domain)
        strata.append('out_dtype:default')
    else:
        func = sampling_function(f, space.domain, out_dtype=space.dtype)
    mesh = space.meshgrid
    checks = 1 + len(prior)

    def compare(label, got, want):
        if not isinstance(got, np.ndarray):
            raise Violation('C15|sample|{}-type|{}'.format(label, sig_tail),
                            'returned {!r}'.format(type(got)))
        if got.dtype != dtype:
            raise Violation('C15|sample|{}-dtype|{}'.format(label, sig_tail),
                            'result dtype {} expected {}'.format(got.dtype,
                                                                 dtype))
        if got.shape != want.shape or not bool(np.all(got == want)):
            raise Violation('C15|sample|{}-values|{}'.format(label, sig_tail),
                            '{}; real={!r} imag={!r}'.format(
                                _first_diff(got, want.astype(got.dtype)),
                                real, imag))

    try:
        r = point_collocation(func, mesh, **passed)
    except TypeError as e:
        # (1-d: the wrapper retries with the first mesh vector, the
        # original error is then the context of the final one)
        if 'out_dtype:default' in strata and style == 'out' and (
                'NoneType' in str(e) or
                'NoneType' in str(getattr(e, '__context__', ''))):
            raise Violation(
                'C15|sample|default-out_dtype-raises|inplace-only',
                'sampling_function(f, domain) without out_dtype, f(x, out) '
                'in-place only, evaluated out of place: TypeError: {}'
                ''.format(e))
        raise
    compare('mesh', r, expected)
    # regions of known findings are exercised in every other case only, so
    # that the remaining clauses keep being checked there
    kwonly_1d = style == 'dual_kwonly' and ndim == 1
    inplace = style != 'ufunc' and not kwonly_1d or desc['seed'] % 2 == 0
    if not inplace:
        strata.append(style + ':out-of-place-only')

    def call_inplace(arg, out):
        try:
            return func(arg, out=out, **passed)
        except ValueError as e:
            if style == 'ufunc' and 'non-broadcastable output' in str(e):
                raise Violation('C15|sample|inplace-raises|ufunc|1d',
                                'in-place evaluation of a ufunc sampling '
                                'function: {}'.format(e))
            raise
        except TypeError as e:
            if kwonly_1d and 'positional argument' in str(e):
                raise Violation(
                    'C15|sample|inplace-raises|kwonly-out|1d',
                    'in-place evaluation of f(x, *, out=None) in 1-d: '
                    'TypeError: {}'.format(e))
            raise

    out = np.full(shape, 777, dtype=dtype)
    r = call_inplace(mesh, out) if (style == 'ufunc' or kwonly_1d) and \
        inplace else \
        point_collocation(func, mesh, out=out, **passed) if inplace else out
    if inplace:
        out_mesh = np.array(out, copy=True)
    if r is not out:
        raise Violation('C15|sample|mesh-out-identity|' + sig_tail,
                        'point_collocation(out=out) did not return out')
    if inplace:
        compare('mesh-out', out, expected)
    # point array (d, N), points are columns
    pts = _points_array(vecs)
    pts_in = pts.copy()          # the library's copy
    flat = expected.ravel()
    if style == 'native1d' and pts.shape[1] > 1 and desc['seed'] % 2:
        arr_in = pts_in[0]       # 1-d, function of x itself: (N,) array
        strata.append('array:1d-flat')
    elif style in VECTORIZE_STYLES and ndim == 1 and pts.shape[1] > 1 and \
            desc.get('flat1d'):
        arr_in = pts_in[0]       # the decorator documents flat 1-d input
        strata.append('array:1d-flat-vectorize')
    else:
        arr_in = pts_in
    r = func(arr_in, **passed)
    compare('array', r, flat)
    if inplace:
        out = np.full(flat.shape, 777, dtype=dtype)
        r = call_inplace(arr_in, out)
        if r is not out:
            raise Violation('C15|sample|array-out-identity|' + sig_tail,
                            'func(x, out=out) did not return out')
        compare('array-out', out, flat)
    checks += 4
    # single points
    rng = np.random.RandomState(desc['seed'])
    n_single = min(desc['npoints'], pts.shape[1])
    for j in rng.choice(pts.shape[1], size=n_single, replace=False):
        pt = pts[:, j]
        arg = float(pt[0]) if ndim == 1 else (
            pt.tolist() if j % 2 else np.array(pt))
        r = func(arg, **passed)
        want = flat[j]
        ok_type = isinstance(r, complex) if cplx else isinstance(r, float)
        if not ok_type:
            raise Violation('C15|sample|single-type|' + sig_tail,
                            'func(point) returned {!r}'.format(type(r)))
        if not dtype.type(r) == want:
            raise Violation('C15|sample|single-values|' + sig_tail,
                            'point {}: {!r} expected {!r}; real={!r}'.format(
                                pt.tolist(), r, want, real))
        checks += 1
    # bounds check: a point outside the domain
    ext = np.asarray(space.domain.extent, dtype=float)
    outside = np.asarray(space.domain.max_pt, dtype=float) + \
        np.where(ext > 0, ext, 1.0) * 0.5
    cols = np.stack([pts[:, 0], outside], axis=1)
    try:
        func(cols, **passed)
    except ValueError:
        pass
    else:
        raise Violation('C15|sample|bounds-check|' + sig_tail,
                        'point {} outside the domain accepted'.format(
                            outside.tolist()))
    r = func(cols, bounds_check=False, **passed)
    want = np.array([ref.value_at(real, imag, cols[:, k].tolist(), effective,
                                  cplx) for k in range(2)]).astype(dtype)
    compare('no-bounds-check', r, want)
    checks += 2
    if not np.array_equal(pts_in, pts):
        raise Violation('C15|sample|input-modified|' + sig_tail,
                        'evaluating the sampling function changed the point '
                        'array passed in')
    # (3) the new element owns its data: writing to it must not change the
    # sampling grid of the space (last, because it destroys the element)
    shared = any(np.shares_memory(elem.asarray(), cv)
                 for cv in space.grid.coord_vectors)
    elem.asarray()[...] = 4711
    for i, (cv, v0) in enumerate(zip(space.grid.coord_vectors, vecs)):
        if not np.array_equal(np.asarray(cv), v0):
            raise Violation(
                'C15|sample|element-aliases-grid|' + sig_tail,
                'writing to space.element(f) changed grid.coord_vectors[{}] '
                'from {} to {} (shares memory: {}); real={!r}'.format(
                    i, v0.tolist(), np.asarray(cv).tolist(), shared, real))
    # (4) elements created earlier are separate objects: sampling again (and
    # writing to the last element) left them alone
    arrays = [e.asarray() for e, _, _ in prior] + [elem.asarray()]
    for i, (e, want_k, label) in enumerate(prior):
        if any(np.shares_memory(arrays[i], a) for a in arrays[i + 1:]):
            raise Violation('C15|sample|elements-share-memory|' + sig_tail,
                            label + ' shares memory with an element sampled '
                            'later')
        if not _same_values(arrays[i], want_k):
            raise Violation('C15|sample|earlier-element-changed|' + sig_tail,
                            '{} changed after later sampling: {}'.format(
                                label, _first_diff(arrays[i], want_k)))
    nontriv = (ndim >= 2 or style not in ('native', 'const') or
               sd['kind'] != 'discr' or bool(prior))
    return Outcome('ok', strata=strata, nontrivial=nontriv,
                   notes={'sample_checks': checks})


def run_sample_vector(desc, space, vecs, strata):
    """Vector-valued sampling functions (array of callables / constants)."""
    comps = desc['comps']
    form = desc['vector_form']
    ndim = space.ndim
    k = len(comps)
    strata.append('vector:' + form)
    shape = tuple(len(v) for v in vecs)
    has_ufunc = any(c[0] == 'ufunc' for c in comps)
    expected = np.stack([ref.sample(UFUNC_EXPR[c[1]] if c[0] == 'ufunc' else
                                    c, None, vecs, {}, 'float64')
                         for c in comps])
    sig_tail = 'vector-' + form
    if has_ufunc:
        strata.append('vector:ufunc-member')

    def native(c):
        if c[0] == 'c':
            return c[1]
        if c[0] == 'ufunc':
            return getattr(np, c[1])
        return lambda x: eval_vec(c, lambda i: x[i], {})

    def native_out(c):
        if c[0] == 'c':
            return c[1]

        def g(x, out):
            out[:] = eval_vec(c, lambda i: x[i], {})
        return g

    lkw = {}
    if desc.get('vector_out_dtype') and form in ('list', 'list_out'):
        lkw['out_dtype'] = (float, (k,))
        strata.append('vector:out_dtype-given')
    if form == 'list':
        func = sampling_function([native(c) for c in comps], space.domain,
                                 **lkw)
    elif form == 'list_out':
        func = sampling_function([native_out(c) for c in comps],
                                 space.domain, **lkw)
    elif form == 'tuple_func_x1d':
        def vf(x):
            # 1-d: a function of x itself
            return tuple(eval_vec(c, lambda i: x, {}) for c in comps)
        func = sampling_function(vf, space.domain, out_dtype=(float, (k,)))
    else:
        def vf(x):
            return tuple(eval_vec(c, lambda i: x[i], {}) for c in comps)
        func = sampling_function(vf, space.domain, out_dtype=(float, (k,)))
    mesh = space.meshgrid
    pts = _points_array(vecs)
    for label, arg, want in (
            ('mesh', mesh, expected),
            ('array', pts, expected.reshape(k, -1))):
        if label == 'array' and ndim == 1 and pts.shape[1] == 1:
            continue
        region = 'mixed-shapes'
        if form in ('tuple_func', 'tuple_func_x1d'):
            # (a 1-d mesh reaches the function as a (1, n) array)
            seen = arg[0][None, ...] if form == 'tuple_func_x1d' and \
                isinstance(arg, tuple) else arg
            shapes = [np.shape(v) for v in vf(seen)]
            if all(sh == shapes[0] for sh in shapes) and \
                    shapes[0] != want.shape[1:] and \
                    shapes[0] != (1,) + want.shape[1:]:
                region = 'same-partial-shapes'
            strata.append('vector-shapes:' + region)
        try:
            r = func(arg)
            if region == 'same-partial-shapes':
                func(arg, out=np.full(want.shape, 777.0))
        except REJECT as e:
            raise Violation(
                'C15|sample|vector-raises|{}|{}'.format(
                    form.replace('_x1d', ''), region),
                '{} input: {}: {}; comps={!r}'.format(label,
                                                     type(e).__name__, e,
                                                     comps))
        if not isinstance(r, np.ndarray) or r.shape != want.shape or \
                not bool(np.all(r == want)):
            raise Violation(
                'C15|sample|{}-values|{}'.format(label, sig_tail),
                '{}; comps={!r}'.format(
                    _first_diff(np.asarray(r), want) if isinstance(
                        r, np.ndarray) else type(r), comps))
        if has_ufunc and desc['seed'] % 2:
            # region of a known finding: in place in every other case only
            strata.append('vector:ufunc-member-out-of-place-only')
            continue
        out = np.full(want.shape, 777.0)
        try:
            r = func(arg, out=out)
        except ValueError as e:
            if has_ufunc and 'non-broadcastable output' in str(e):
                raise Violation(
                    'C15|sample|inplace-raises|ufunc-in-list|1d',
                    'in-place evaluation of a list of sampling functions '
                    'with a ufunc member: {}'.format(e))
            raise
        if not bool(np.all(out == want)):
            raise Violation(
                'C15|sample|{}-out-values|{}'.format(label, sig_tail),
                '{}; comps={!r}'.format(_first_diff(out, want), comps))
    return Outcome('ok', strata=strata, nontrivial=True,
                   notes={'sample_checks': 4})


# --------------------------------------------------------------------------
# mode: interp

def build_values(vd, dtype):
    if vd['dtype'] == 'U':
        rng = np.random.RandomState(vd['seed'])
        letters = np.array(list('abcdefgh'))
        size = int(np.prod(vd['shape'], dtype=int))
        words = [''.join(rng.choice(letters, size=rng.randint(1, 4)))
                 for _ in range(size)]
        return np.array(words, dtype='<U3').reshape(vd['shape'])
    return build.build_array(vd)


def make_interpolator(desc, values, coord_arg):
    kind = desc['kind']
    if kind == 'nearest':
        return nearest_interpolator(values, coord_arg)
    if kind == 'linear':
        return linear_interpolator(values, coord_arg)
    return per_axis_interpolator(values, coord_arg, desc['schemes'])


def _schemes_list(desc, ndim):
    s = desc['schemes']
    if isinstance(s, str):
        return [s.lower()] * ndim
    return [str(v).lower() for v in s]


def compare_interp(got, values, coords, schemes, point, strict, sig_tail,
                   label):
    """One interpolated value against the reference."""
    alts, mag, dt, fmax = ref.interpolate(values, coords, schemes, point,
                                          strict)
    values = np.asarray(values)
    if values.dtype.kind not in 'fciu':
        if not any(got == a for a in alts):
            raise Violation('C15|interp|value|' + sig_tail,
                            '{}: point {}: {!r} expected one of {!r}'.format(
                                label, point, got, alts))
        return
    exact = all(s == 'nearest' for s in schemes) or all(
        np.any(np.asarray(c) == x) for c, x in zip(coords, point))
    if values.dtype.kind in 'iu':
        eps_val = EPS
    else:
        eps_val = float(np.finfo(values.dtype).eps)
    d = len(coords)
    # absolute floor: one rounding per accumulated corner in the subnormal
    # range of the value dtype (float32 values may be subnormal)
    floor = (2 + 2 ** d) * (float(np.finfo(values.dtype).smallest_subnormal)
                            if values.dtype.kind in 'fc' else 0.0)
    loose = (8 + 2 ** d) * eps_val * mag + 2 * dt * fmax + floor + 1e-300
    tol = 0.0 if exact else loose
    cplx = values.dtype.kind == 'c'
    g = ref.CLD(got) if cplx else LD(got)
    err = min(float(abs(g - a)) for a in alts)
    if exact and 0 < err <= loose and values.dtype == np.complex128 and \
            'linear' in schemes:
        # complex128 values: the normalised distances are computed in
        # complex arithmetic (x/h evaluated as x*(1/h)), h/h != 1
        raise Violation(
            'C15|{}|node-inexact|cplx128|{}'.format(
                'interp' if label in ('mesh', 'array', 'single') or
                label.startswith('out=') or label.startswith('(1') else
                label, 'mixed' if len(set(schemes)) > 1 else schemes[0]),
            '{}: node {} is reproduced only to rounding: got {!r} node value '
            '{!r} (err {:.3g})'.format(label, list(point), got,
                                       complex(alts[0]), err))
    if not err <= tol:
        cls = _point_class(coords, point)
        raise Violation(
            'C15|interp|value|{}|{}'.format(sig_tail, cls),
            '{}: point {}: got {!r} expected {!r} (err {:.3g} tol {:.3g}); '
            'schemes {} coords {}'.format(
                label, list(point), got,
                [complex(a) if cplx else float(a) for a in alts], err, tol,
                schemes, [list(map(float, c)) for c in coords]))


def _point_class(coords, point):
    names = set()
    for c, x in zip(coords, point):
        c = np.asarray(c, dtype=float)
        if x < c[0]:
            names.add('below')
        elif x > c[-1]:
            names.add('above')
        elif np.any(c == x):
            names.add('node')
        elif np.any((c[1:] + c[:-1]) / 2.0 == x):
            names.add('tie')
        else:
            names.add('inside')
    # one coarse region per point (signatures are root-cause keys)
    if 'below' in names or 'above' in names:
        return 'outside'
    if 'tie' in names:
        return 'tie'
    if names == {'node'}:
        return 'node'
    return 'inside'


RAGGED_MSG = 'could not broadcast input array'


def call_mesh(interp, mesh, site, **kwargs):
    """Call an interpolator with a sparse mesh grid."""
    try:
        return interp(mesh, **kwargs)
    except ValueError as e:
        if str(e).startswith(RAGGED_MSG) and len(mesh) > 1 and \
                mesh[0].size == 1:
            raise Violation(
                'C15|{}|mesh-ragged-object-array|first-axis-one-point'
                ''.format(site),
                'mesh grid with shapes {} is rejected: {}'.format(
                    [m.shape for m in mesh], e))
        raise


def run_interp(desc):
    coords = [np.array(c, dtype=float) for c in desc['coords']]
    ndim = len(coords)
    dt = desc['dtype']
    values = build_values(desc['values'], dt)
    schemes = _schemes_list(desc, ndim)
    kind = desc['kind']
    strict = desc['lattice'] == 'dyadic' and ref.is_lattice(
        coords + [np.array(p) for p in desc['pts']])
    vkind = values.dtype.kind
    mixed = len(set(schemes)) > 1
    strata = ['mode:interp', 'api:' + kind, 'ndim:{}'.format(ndim),
              'values:' + ('str' if vkind == 'U' else str(values.dtype)),
              'lattice:' + ('strict' if strict else 'generic'),
              'schemes:' + ('mixed' if mixed else schemes[0]),
              'layout:' + desc['values'].get('order', 'C')]
    if not all(desc['uniform']):
        strata.append('nonuniform-axis')
    for ks in desc['pt_kinds']:
        for k in ks:
            strata.append('pt:' + k)
    sig_tail = '{}|{}|{}'.format(
        kind, 'mixed' if mixed else schemes[0],
        {'f': 'real', 'c': 'cplx', 'i': 'int', 'u': 'int',
         'U': 'str'}[vkind])
    form = desc['coord_form']
    # the library gets its own copies of everything (`coords`, `values`,
    # `arr` below stay pristine for the reference model)
    coord_arg = [np.array(c, copy=True) for c in coords]
    if form == 'list':
        coord_arg = [np.array(c.tolist()) for c in coord_arg]
    elif form == 'tuple':
        coord_arg = tuple(coord_arg)
    values_in, values = values, np.array(values, copy=True)
    interp = make_interpolator(desc, values_in, coord_arg)

    pts = [np.array(p, dtype=float) for p in desc['pts']]
    mesh = _mesh([p.copy() for p in pts])
    mshape = tuple(len(p) for p in pts)
    arr = _points_array(pts)
    npts = arr.shape[1]
    lib_inputs = [('node values', values_in, values)] + \
        [('mesh vector', m, p.reshape(m.shape)) for m, p in zip(mesh, pts)] + \
        [('coordinate vector', c, c0) for c, c0 in zip(coord_arg, coords)]

    def inputs_intact():
        """Evaluation leaves the evaluation points, the node values and
        the coordinate vectors alone."""
        for what, now, before in lib_inputs:
            now = np.asarray(now)
            if now.shape != before.shape or not bool(np.all(now == before)):
                raise Violation('C15|interp|input-modified|' + sig_tail,
                                'evaluating the interpolator changed the {}'
                                ''.format(what))

    # --- mesh input
    try:
        res_mesh = call_mesh(interp, mesh, 'interp')
    except TypeError as e:
        if vkind in 'iu' and kind != 'nearest' and \
                type(e).__name__ == 'UFuncTypeError':
            raise Violation(
                'C15|interp|int-values-raise|{}|dtype={}'.format(
                    kind, values.dtype),
                '{} on an integer value array raises UFuncTypeError: {}'
                ''.format(kind, e))
        raise
    if not isinstance(res_mesh, np.ndarray) or res_mesh.shape != mshape:
        raise Violation('C15|interp|mesh-shape|' + sig_tail,
                        'mesh {} gave {!r}'.format(
                            mshape, getattr(res_mesh, 'shape',
                                            type(res_mesh))))
    if vkind in 'fc' and res_mesh.dtype != values.dtype:
        raise Violation('C15|interp|dtype|' + sig_tail,
                        'result dtype {} for values {}'.format(
                            res_mesh.dtype, values.dtype))
    inputs_intact()
    flat = res_mesh.ravel()
    for j in range(npts):
        compare_interp(flat[j], values, coords, schemes, arr[:, j].tolist(),
                       strict, sig_tail, 'mesh')
    comparisons = npts

    # --- point array input, possibly permuted (points need not be sorted)
    perm = np.arange(npts)
    if desc['perm'] == 'reverse':
        perm = perm[::-1]
    elif desc['perm'] == 'roll':
        perm = np.roll(perm, 1)
    arr_p = np.ascontiguousarray(arr[:, perm])
    arr_in = arr_p.copy()
    lib_inputs.append(('point array', arr_in, arr_p))
    if ndim == 1 and desc['perm'] == 'id':
        arg = arr_in[0].tolist()       # 1-d: a plain list of numbers
        strata.append('array:1d-list')
    else:
        arg = arr_in
    res_arr = interp(arg)
    inputs_intact()
    if not isinstance(res_arr, np.ndarray) or res_arr.shape != (npts,):
        raise Violation('C15|interp|array-shape|' + sig_tail,
                        '{} points gave {!r}'.format(
                            npts, getattr(res_arr, 'shape', type(res_arr))))

    def conventions_agree(got, want, cols, clause, label):
        """Bitwise agreement between calling conventions.  Complex
        products are evaluated by SIMD loops whose last bit depends on the
        position in the array, so complex results are compared with the
        reference instead."""
        got = np.asarray(got)
        if _same_values(got, want):
            return
        if vkind == 'c' and got.shape == want.shape and \
                got.dtype == want.dtype:
            for jj, g in enumerate(got.ravel()):
                compare_interp(g, values, coords, schemes,
                               cols[:, jj].tolist(), strict, sig_tail, label)
            return
        raise Violation('C15|interp|{}|{}'.format(clause, sig_tail),
                        label + ': ' + _first_diff(got, want))

    conventions_agree(res_arr, flat[perm], arr_p, 'array-vs-mesh', 'array')
    strata.append('perm:' + desc['perm'])

    # --- out=
    int_blend = vkind in 'iu' and kind != 'nearest'   # F17 region, if fixed
    for label, arg_o, want, cols in (('array', arr_in, flat[perm], arr_p),
                                     ('mesh', mesh, res_mesh, arr)):
        if int_blend:
            break       # out must have the integer dtype of the values
        out = np.empty(want.shape, dtype=values.dtype)
        out[...] = 'zz' if vkind == 'U' else 77
        r = call_mesh(interp, arg_o, 'interp', out=out) if label == 'mesh' \
            else interp(arg_o, out=out)
        if not (r is out or (isinstance(r, np.ndarray) and
                             np.shares_memory(r, out))):
            raise Violation('C15|interp|out-identity|' + sig_tail,
                            '{}: result is not out'.format(label))
        inputs_intact()
        conventions_agree(out, want, cols, 'out-values', 'out=' + label)

    # --- single points
    nsingle = min(npts, 6)
    for j in range(nsingle):
        pt = arr[:, j]
        arg = float(pt[0]) if ndim == 1 else (pt.tolist() if j % 2 else
                                              np.array(pt))
        r = interp(arg)
        if isinstance(r, np.ndarray):
            raise Violation('C15|interp|single-type|' + sig_tail,
                            'single point gave an array of shape {}'.format(
                                r.shape))
        want = flat[j]
        same = (r == want.item()) if vkind != 'U' else (r == str(want))
        if not same and vkind == 'c' and isinstance(r, complex):
            compare_interp(r, values, coords, schemes, pt.tolist(), strict,
                           sig_tail, 'single')
            same = True
        if not same:
            raise Violation('C15|interp|single-vs-mesh|' + sig_tail,
                            'point {}: {!r} vs {!r}'.format(pt.tolist(), r,
                                                            want))
        pytype = {'f': float, 'c': complex, 'i': int, 'u': int,
                  'U': str}[vkind]
        if int_blend:
            pytype = (int, float)
        if not isinstance(r, pytype):
            raise Violation('C15|interp|single-type|' + sig_tail,
                            'single point gave {!r}'.format(type(r)))
    # 1-d: (1, N) array as well
    if ndim == 1:
        r = interp(arr_in.reshape(1, -1))
        inputs_intact()
        conventions_agree(r, flat[perm], arr_p, 'array-vs-mesh',
                          '(1, N) array')
    inputs_intact()

    # --- affine exactness of linear interpolation inside the hull
    if desc.get('affine') is not None and vkind in 'fc':
        comparisons += check_affine(desc, coords, pts, values.dtype, sig_tail)
        strata.append('affine')
    has_special = any(k in ('mid', 'near', 'lo', 'hi')
                      for ks in desc['pt_kinds'] for k in ks)
    nontriv = (ndim >= 2 or not all(desc['uniform']) or mixed or has_special)
    return Outcome('ok', strata=strata, nontrivial=nontriv,
                   notes={'interp_comparisons': comparisons})


def check_affine(desc, coords, pts, dtype, sig_tail):
    a = [float(v) for v in desc['affine']['a']]
    b = float(desc['affine']['b'])
    d = len(coords)
    grids = np.meshgrid(*coords, indexing='ij')
    vals = np.full(grids[0].shape, b)
    for ai, g in zip(a, grids):
        vals = vals + ai * g
    vals = vals.astype(dtype)
    eps_val = float(np.finfo(dtype).eps)
    interp = linear_interpolator(vals, coords)
    inside = [np.array([x for x in p if c[0] <= x <= c[-1]])
              for p, c in zip(pts, coords)]
    if any(len(p) == 0 for p in inside):
        return 0
    res = call_mesh(interp, _mesh(inside), 'interp')
    arr = _points_array(inside)
    scale = abs(b) + sum(abs(ai) * float(np.max(np.abs(c)))
                         for ai, c in zip(a, coords))
    n = 0
    for j, got in enumerate(np.asarray(res).ravel()):
        pt = arr[:, j]
        want = LD(b)
        dt = 0.0
        for ai, x, c in zip(a, pt, coords):
            want = want + LD(ai) * LD(x)
            dt += ref.linear_entries(c, x)[1]
        tol = (8 + 2 ** d + 2 * d) * eps_val * scale + 2 * dt * scale + \
            (2 + 2 ** d) * float(np.finfo(dtype).smallest_subnormal) + 1e-300
        err = float(abs(ref.CLD(got) - want)) if np.dtype(dtype).kind == 'c' \
            else float(abs(LD(got) - want))
        if not err <= tol:
            raise Violation(
                'C15|interp|affine|' + sig_tail,
                'a={} b={} point {}: got {!r} expected {!r} (err {:.3g} tol '
                '{:.3g})'.format(a, b, pt.tolist(), got, float(want), err,
                                 tol))
        n += 1
    return n


# --------------------------------------------------------------------------
# mode: resample / deform

def _as_schemes(interp, ndim):
    return [interp] * ndim if isinstance(interp, str) else list(interp)


def run_resample(desc):
    sd = desc['space']
    dom = build.build_space(sd)
    ndim = dom.ndim
    if desc['target'] == 'same':
        ran = build.build_space(sd)
    else:
        ran = odl.uniform_discr(sd['min'], sd['max'], tuple(desc['tshape']),
                                dtype=sd['dtype'],
                                nodes_on_bdry=[tuple(f)
                                               for f in desc['tnob']])
    schemes = _as_schemes(desc['interp'], ndim)
    mixed = len(set(schemes)) > 1
    strata = ['mode:resample', 'target:' + desc['target'],
              'ndim:{}'.format(ndim), 'dtype:' + sd['dtype'],
              'schemes:' + ('mixed' if mixed else schemes[0])]
    sig_tail = '{}|{}'.format(desc['target'],
                              'mixed' if mixed else schemes[0])
    direction = desc.get('direction', 'forward')
    strata.append('direction:' + direction)
    if direction == 'forward':
        op = odl.Resampling(dom, ran, desc['interp'])
    else:
        # documented: inverse / adjoint are the resampling in the opposite
        # direction (with the same interpolation)
        back = odl.Resampling(ran, dom, desc['interp'])
        op = back.inverse if direction == 'inverse' else back.adjoint
        if not isinstance(op, odl.Resampling) or op.domain != dom or \
                op.range != ran:
            raise Violation('C15|resample|{}-spaces|{}'.format(
                direction, 'mixed' if mixed else schemes[0]),
                            '{} of Resampling(ran, dom) maps {!r} -> {!r}'
                            ''.format(direction, getattr(op, 'domain', None),
                                      getattr(op, 'range', None)))
    want_interp = schemes[0] if not mixed else tuple(schemes)
    if tuple(op.interp_byaxis) != tuple(schemes) or op.interp != want_interp:
        raise Violation('C15|resample|interp-attribute|{}|{}'.format(
            direction, 'mixed' if mixed else schemes[0]),
            'interp={!r}: interp_byaxis {!r}, interp {!r}'.format(
                desc['interp'], op.interp_byaxis, op.interp))
    x = build.build_element(dom, sd, desc['x'])
    xv = np.array(x.asarray(), copy=True)
    coords = [np.array(c, dtype=float, copy=True)
              for c in dom.grid.coord_vectors]
    tcoords = [np.array(c, dtype=float, copy=True)
               for c in ran.grid.coord_vectors]

    def grids_intact():
        for sp, ref_c in ((dom, coords), (ran, tcoords)):
            for c, c0 in zip(sp.grid.coord_vectors, ref_c):
                if not np.array_equal(np.asarray(c), c0):
                    raise Violation(
                        'C15|resample|grid-modified|' + sig_tail,
                        'applying the operator changed the sampling grid of '
                        'a space: {} -> {}'.format(c0.tolist(),
                                                   np.asarray(c).tolist()))

    prior = None
    if desc.get('prior_call'):
        # the operator was applied to another element before
        try:
            prior = op(dom.element(-0.5 * xv + 1))
        except ValueError as e:
            if not (str(e).startswith(RAGGED_MSG) and ndim > 1 and
                    ran.shape[0] == 1):
                raise
        if prior is not None:
            prior_v = np.array(prior.asarray(), copy=True)
        strata.append('prior-call')
    try:
        y = op(x)
    except ValueError as e:
        if str(e).startswith(RAGGED_MSG) and ndim > 1 and ran.shape[0] == 1:
            raise Violation(
                'C15|resample|mesh-ragged-object-array|first-axis-one-point',
                'Resampling onto a grid of shape {} raises: {}'.format(
                    ran.shape, e))
        raise
    grids_intact()
    if y not in ran:
        raise Violation('C15|resample|range|' + sig_tail,
                        'result not in the range')
    got = y.asarray()
    if not _same_values(x.asarray(), xv):
        raise Violation('C15|resample|input-modified|' + sig_tail,
                        'input element changed')
    if prior is not None and (
            np.shares_memory(prior.asarray(), y.asarray()) or
            not _same_values(prior.asarray(), prior_v)):
        raise Violation('C15|resample|earlier-result-changed|' + sig_tail,
                        'the result of an earlier call changed with / shares '
                        'memory with the result of the next call')
    if desc['out']:
        yo = ran.element()
        yo.asarray()[...] = 55
        r = op(x, out=yo)
        if r is not yo:
            raise Violation('C15|resample|out-identity|' + sig_tail,
                            'op(x, out=y) is not y')
        if not _same_values(yo.asarray(), got):
            raise Violation('C15|resample|out-values|' + sig_tail,
                            _first_diff(yo.asarray(), got))
        strata.append('out')
        grids_intact()
    n = 0
    strict = ref.is_lattice(coords + tcoords)
    if desc['target'] == 'same':
        if not _same_values(got, xv) and xv.dtype == np.complex128:
            # classified entry by entry below (known rounding of complex128)
            pass
        elif not _same_values(got, xv):
            raise Violation('C15|resample|identity|' + sig_tail,
                            'same grid: ' + _first_diff(got, xv))
        n = got.size
    strata.append('lattice:' + ('strict' if strict else 'generic'))
    arr = _points_array(tcoords)
    flat = got.ravel()
    for j in range(arr.shape[1]):
        compare_interp(flat[j], xv, coords, schemes, arr[:, j].tolist(),
                       strict, 'Resampling|' +
                       ('mixed' if mixed else schemes[0]), 'Resampling')
        n += 1
    nontriv = ndim >= 2 or mixed or desc['target'] != 'same'
    return Outcome('ok', strata=strata, nontrivial=nontriv,
                   notes={'resample_comparisons': n})


def run_deform(desc):
    from odl.deform import linear_deform
    sd = desc['space']
    space = build.build_space(sd)
    ndim = space.ndim
    schemes = _as_schemes(desc['interp'], ndim)
    mixed = len(set(schemes)) > 1
    x = build.build_element(space, sd, desc['x'])
    xv = np.array(x.asarray(), copy=True)
    sides = np.asarray(space.cell_sides, dtype=float)
    disp = [np.array(dk, dtype=float).reshape(space.shape) / 8.0 * s
            for dk, s in zip(desc['disp8'], sides)]
    order = desc.get('disp_order', 'C')

    cplx = np.dtype(sd['dtype']).kind == 'c'
    rspace = space.real_space if cplx else space

    def laid_out(a):
        a = a.astype(rspace.dtype)
        if order == 'F':
            return np.asfortranarray(a)
        if order == 'strided':
            big = np.zeros(tuple(2 * n for n in a.shape), dtype=a.dtype)
            view = big[tuple(slice(None, None, 2) for _ in a.shape)]
            view[...] = a
            return view
        return a

    # displacements are real, also for complex templates
    tb = rspace.tangent_bundle
    field = tb.element([tb[i].element(laid_out(d))
                        for i, d in enumerate(disp)])
    zero = all(not np.any(d) for d in disp)
    strata = ['mode:deform', 'ndim:{}'.format(ndim), 'dtype:' + sd['dtype'],
              'schemes:' + ('mixed' if mixed else schemes[0]),
              'disp:' + ('zero' if zero else 'nonzero'),
              'disp-layout:' + order,
              'template-layout:' + desc['x'].get('order', 'C')]
    sig_tail = 'mixed' if mixed else schemes[0]
    interp_arg = desc['interp']
    if desc.get('interp_form') == 'tuple':
        interp_arg = tuple(interp_arg)
    via = desc.get('via', 'function')
    if cplx and via == 'fixed_disp_adjoint':
        via = 'fixed_disp'
    strata.append('via:' + via)
    strata.append('schemes-by-axis:' + ''.join(sc[0] for sc in schemes))
    field_v = [np.array(a, copy=True) for a in _leaf_arrays(field)]
    coords = [np.array(c, dtype=float, copy=True)
              for c in space.grid.coord_vectors]
    got = linear_deform(x, field, interp=interp_arg)
    if not _same_values(x.asarray(), xv) or not all(
            _same_values(a, b) for a, b in zip(_leaf_arrays(field), field_v)):
        raise Violation('C15|deform|input-modified|linear_deform|' +
                        ('mixed' if mixed else schemes[0]),
                        'linear_deform changed the template or the '
                        'displacement field')
    if not isinstance(got, np.ndarray) or got.shape != space.shape:
        raise Violation('C15|deform|shape|' + sig_tail,
                        'returned {!r}'.format(getattr(got, 'shape',
                                                       type(got))))
    sign = 1.0
    factor = None
    if via != 'function':
        got, sign, factor = deform_operator(desc, via, space, x, field,
                                            interp_arg, schemes, got,
                                            sig_tail, strata)
    if zero and factor is None and not _same_values(got, xv):
        raise Violation('C15|deform|identity|' + sig_tail,
                        'zero displacement: ' + _first_diff(got, xv))
    for c, c0 in zip(space.grid.coord_vectors, coords):
        if not np.array_equal(np.asarray(c), c0):
            raise Violation('C15|deform|grid-modified|' + sig_tail,
                            'deforming changed the sampling grid of the '
                            'space: {} -> {}'.format(c0.tolist(),
                                                     np.asarray(c).tolist()))
    pts = _points_array(coords)
    moved = pts.copy()
    for i in range(ndim):
        moved[i] = moved[i] + sign * np.asarray(field_v[i],
                                                dtype=float).ravel()
    strict = ref.is_lattice(coords + [moved])
    strata.append('lattice:' + ('strict' if strict else 'generic'))
    flat = got.ravel()
    n = 0
    site = 'linear_deform' if via == 'function' else \
        'LinDeformFixedTempl' if via == 'fixed_templ' else 'LinDeformFixedDisp'
    for j in range(pts.shape[1]):
        g = flat[j]
        if factor is not None:
            # adjoint = exp(-div v) * inverse: judge the deformed part
            fj = factor.ravel()[j]
            try:
                alts, mag, dt, fmax = ref.interpolate(
                    xv, coords, schemes, moved[:, j].tolist(), strict)
            except ref.OutOfRange:
                continue
            eps_val = float(np.finfo(xv.dtype).eps)
            tol = abs(fj) * ((16 + 2 ** ndim) * eps_val * (mag + fmax) +
                             2 * dt * fmax) + 1e-300 + \
                (4 + 2 ** ndim) * max(1.0, abs(fj)) * float(
                    np.finfo(xv.dtype).smallest_subnormal)
            err = min(abs(float(g) - float(fj) * float(a)) for a in alts)
            if not err <= tol:
                raise Violation(
                    'C15|interp|value|{}.adjoint|{}'.format(site, sig_tail),
                    'adjoint at point {}: got {!r} expected {!r} * {!r} (err '
                    '{:.3g} tol {:.3g}); schemes {}'.format(
                        moved[:, j].tolist(), g, fj, float(alts[0]), err, tol,
                        schemes))
            n += 1
            continue
        try:
            compare_interp(g, xv, coords, schemes, moved[:, j].tolist(),
                           strict, site + '|' + sig_tail, site)
        except ref.OutOfRange:
            continue
        n += 1
    return Outcome('ok', strata=strata, nontrivial=True,
                   notes={'deform_comparisons': n})


def _leaf_arrays(x):
    """Arrays of an element of a discretized space or of a power space."""
    if hasattr(x, 'parts'):
        return [np.asarray(p.asarray()) for p in x.parts]
    return [np.asarray(x.asarray())]


def deform_operator(desc, via, space, x, field, interp_arg, schemes, func_res,
                    sig_tail, strata):
    """The deformation operators; returns (values, sign of the displacement
    seen by the template, multiplicative factor or None)."""
    from odl.deform import LinDeformFixedDisp, LinDeformFixedTempl
    ndim = space.ndim
    explicit = bool(desc.get('spaces_explicit')) or \
        space.dtype != field.space[0].dtype
    if explicit:
        strata.append('deform-spaces-explicit')
    if via == 'fixed_templ':
        # documented default: template.space.real_space.tangent_bundle
        op = LinDeformFixedTempl(x, domain=field.space, interp=interp_arg) \
            if desc.get('spaces_explicit') else \
            LinDeformFixedTempl(x, interp=interp_arg)
        arg, name = field, 'LinDeformFixedTempl'
        if op.domain != field.space or op.range != space:
            raise Violation(
                'C15|deform|operator-spaces|{}|{}'.format(name, sig_tail),
                'domain {!r} range {!r}'.format(op.domain, op.range))
    else:
        # documented default: displacement.space[0]; a complex template
        # space has to be named
        op = LinDeformFixedDisp(field, templ_space=space,
                                interp=interp_arg) if explicit else \
            LinDeformFixedDisp(field, interp=interp_arg)
        arg, name = x, 'LinDeformFixedDisp'
        if op.domain != space or op.range != space:
            raise Violation(
                'C15|deform|operator-spaces|{}|{}'.format(name, sig_tail),
                'domain {!r} range {!r}'.format(op.domain, op.range))
    base_op = op
    sign, factor = 1.0, None
    if via == 'fixed_disp_inverse':
        op = op.inverse
        sign = -1.0
    elif via == 'fixed_disp_adjoint':
        base = op
        op = op.adjoint
        sign = -1.0
        div = odl.Divergence(domain=field.space, method='forward',
                             pad_mode='symmetric')
        factor = np.exp(-np.asarray(div(field).asarray(), dtype=float))
        factor = factor.astype(space.dtype).astype(float)
        inv = getattr(base.inverse, 'interp_byaxis', None)
        if inv is not None and tuple(inv) != tuple(schemes):
            raise Violation(
                'C15|deform|interp-attribute|{}.inverse|{}'.format(
                    name, sig_tail),
                'inverse has interp_byaxis {!r}, operator {!r}'.format(
                    inv, tuple(schemes)))
    if via == 'fixed_disp_inverse' and \
            tuple(op.interp_byaxis) != tuple(schemes):
        raise Violation(
            'C15|deform|interp-attribute|{}.inverse|{}'.format(name,
                                                               sig_tail),
            'inverse has interp_byaxis {!r}, operator {!r}'.format(
                op.interp_byaxis, tuple(schemes)))
    prior = None
    if desc.get('prior_call'):
        # the operator was applied to another argument before
        prior = op(arg * 0.5)
        prior_v = np.array(prior.asarray(), copy=True)
        strata.append('prior-call')
    arg_v = [np.array(a, copy=True) for a in _leaf_arrays(arg)]
    res = op(arg)
    if res not in space:
        raise Violation('C15|deform|range|{}|{}'.format(name, sig_tail),
                        'result not in the template space')
    vals = np.array(res.asarray(), copy=True)
    if prior is not None and (
            np.shares_memory(prior.asarray(), res.asarray()) or
            not _same_values(prior.asarray(), prior_v)):
        raise Violation(
            'C15|deform|earlier-result-changed|{}|{}'.format(name, sig_tail),
            'the result of an earlier call changed with / shares memory '
            'with the result of the next call')
    if not all(_same_values(a, b)
               for a, b in zip(_leaf_arrays(arg), arg_v)):
        raise Violation(
            'C15|deform|input-modified|{}|{}'.format(name, sig_tail),
            'the operator changed its argument')
    if desc.get('out'):
        out = space.element()
        out.asarray()[...] = 31
        r = op(arg, out=out)
        if r is not out or not _same_values(out.asarray(), vals):
            raise Violation('C15|deform|out|{}|{}'.format(name, sig_tail),
                            'op(x, out=y): ' + ('not y' if r is not out else
                                                _first_diff(out.asarray(),
                                                            vals)))
        strata.append('deform-out')
    if via in ('fixed_disp', 'fixed_templ') and \
            not _same_values(vals, func_res):
        # differential: the operator is the function with the same arguments
        raise Violation(
            'C15|deform|operator-vs-function|{}|{}'.format(name, sig_tail),
            'interp={!r}: {}'.format(interp_arg, _first_diff(vals, func_res)))
    # the documented attributes
    want_interp = schemes[0] if len(set(schemes)) == 1 else tuple(schemes)
    if tuple(base_op.interp_byaxis) != tuple(schemes) or \
            base_op.interp != want_interp:
        raise Violation(
            'C15|deform|interp-attribute|{}|{}'.format(name, sig_tail),
            'interp={!r}: interp_byaxis {!r}, interp {!r} (expected {!r})'
            ''.format(interp_arg, base_op.interp_byaxis, base_op.interp,
                      want_interp))
    return vals, sign, factor


# --------------------------------------------------------------------------

def run_case(desc):
    mode = desc['mode']
    if mode == 'sample':
        return run_sample(desc)
    if mode == 'interp':
        return run_interp(desc)
    if mode == 'resample':
        return run_resample(desc)
    if mode == 'deform':
        return run_deform(desc)
    raise HarnessError('unknown mode ' + str(mode))


REQUIRED_STRATA = (
    ['mode:sample', 'mode:interp', 'mode:resample', 'mode:deform',
     'via:function', 'via:fixed_disp', 'via:fixed_templ',
     'via:fixed_disp_inverse', 'via:fixed_disp_adjoint',
     'schemes-by-axis:nl', 'schemes-by-axis:ln', 'schemes-by-axis:nnl',
     'schemes-by-axis:lln', 'schemes-by-axis:nln', 'schemes-by-axis:lnl',
     'schemes-by-axis:nll', 'schemes-by-axis:lnn', 'deform-out'] +
    ['style:' + s for s in sorted(set(STYLES))] +
    ['api:nearest', 'api:linear', 'api:peraxis', 'schemes:mixed',
     'values:float64', 'values:float32', 'values:complex128',
     'values:complex64', 'values:int64', 'values:str', 'lattice:strict',
     'lattice:generic', 'pt:mid', 'pt:lo', 'pt:hi', 'pt:node', 'pt:near',
     'nonuniform-axis', 'affine', 'target:same', 'target:refine2',
     'coords:subset', 'coords:none', 'output:complex',
     'output:real-into-complex', 'one-point-axis',
     'reuse:any', 'reuse:dtype', 'reuse:astype', 'reuse:shape',
     'reuse:domain', 'reuse:same', 'reuse:kwargs', 'reuse:func2',
     'reuse-dtype:narrow-then-wide', 'reuse-dtype:wide-then-narrow',
     'reuse-dtype:real-then-complex', 'reuse-dtype:complex-then-real',
     'prior-call', 'direction:forward', 'direction:inverse',
     'direction:adjoint', 'deform-spaces-explicit', 'out_dtype:default',
     'array:1d-flat-vectorize', 'vector:out_dtype-given',
     'vector:ufunc-member', 'vector:tuple_func_x1d', 'order:C', 'order:F'])
