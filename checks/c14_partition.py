"""C14 - partitions tile their domain.

Generator: an initial partition (uniform from any consistent subset of
min/max/shape/cell_sides per axis with per-side boundary nodes; non-uniform
coordinate vectors with optional limits / boundary nodes; a bare
``RectPartition(IntervalProd, RectGrid)``) followed by a generated *sequence*
of operations (index expressions, insert, append, squeeze, byaxis).  The
operations are stored abstractly (residues / fractions) and resolved against
the current shape at run time, so every descriptor replays and shrinks.
Oracle: ``vlib.ref.partition`` - partitions as lists of (coordinate vector,
min, max) with the documented midpoint rule; every operation is applied to the
library object and to the model, all invariants are checked after every step.
"""
import numbers

import numpy as np
from hypothesis import strategies as st

from vlib.core import Violation, Outcome, HarnessError, import_odl
from vlib.ref import partition as ref
from vlib.ref.partition import Axis, Invalid, Unspecified, LD, EPS

odl = import_odl()

PROPERTY = 'C14'
TECHNIQUE = ('Hypothesis property-based testing, model-based: generated '
             'partitions and operation sequences replayed on an independent '
             'list-of-axes reference model (midpoint rule), invariants after '
             'every step; descriptor replay')
LEVEL_TEXT = ('Generated-input search over construction routes (all 3- and '
              '4-parameter specifications of uniform partitions x per-side '
              'boundary nodes x argument styles, non-uniform vectors with '
              'optional limits, bare RectPartition) and operation sequences '
              '(ints, stepped slices, ellipsis, index lists, too few indices, '
              'insert, append, squeeze, byaxis); after every step the object '
              'is compared with a NumPy-only model and the tiling invariants '
              'and index() on every cell boundary +-1 ulp are checked. '
              'Exploration, not proof.')
LEVEL_NOTE = ('Trusted: NumPy (long double), Hypothesis, vlib/ref/partition.py '
              '(never imports odl). Coordinates are kept within |x| <= ~100 '
              'with cell sides >= 0.05 so that the isclose-based boundary-node '
              'detection of the library is unambiguous.')
DESIGN_REF = 'DESIGN.md section 5, C14'
BUDGET = {'quick': 6000, 'thorough': 60000}
TOLERANCES = {
    'limits_given': 'exactly the given numbers (bitwise)',
    'limits_completed': '|got-ref| <= 8*eps*scale (exact on the dyadic '
                        'lattice), scale = max(|min|,|max|,|n*dx|)',
    'uniform_coords': '|got-ref| <= (2n+8)*eps*scale (linspace: n products '
                      'and sums); exact on the dyadic lattice',
    'boundaries': 'bitwise equal to (x[i]+x[i+1])/2 of the grid points and to '
                  'the limits',
    'cell_sizes': '|got - diff(boundaries)| <= 8*eps*scale; sum vs extent '
                  '<= 4*(n+2)*eps*scale; documented 0.0 on one-point axes',
    'cell_sides': '|side*(n-#bdry/2) - extent| <= (2n+8)*eps*scale',
    'fractions': '|got-ref| <= 8*eps*(scale/spacing + 1)',
    'index_floating': '|got-ref| <= 8*eps*(scale/cellsize + n + 1); round '
                      'trip |pos(f)-v| <= 16*eps*scale',
    'sub_partitions': 'grid points and limits bitwise equal to the model',
    'variants': 'equivalent specifications: bitwise equal (==, equal hash) on '
                'the dyadic lattice, else coordinates and limits within '
                '(4n+24)*eps*scale (two completions + two linspace calls) '
                'and approx_equals(atol=1e-9*scale)',
}
ASSUMPTIONS = [
    'coordinates |x| <= ~100, cell sides >= 0.05, shapes 1..9, 1-4 initial '
    'axes (at most 6 after insert/append)',
    'None/new axis, empty selections, negative or zero steps, out-of-range '
    'ints, unsorted index lists, too many indices are invalid requests: any '
    'of ValueError/IndexError/TypeError is accepted, a returned partition is '
    'not',
    'cell_sides * count = extent is not asserted on one-point axes that carry '
    'a boundary node (the grid does not determine a cell side there); '
    'cell_sizes_vecs is the documented 0.0 on one-point axes',
    'stepped slices keep the limits at the start/stop boundaries of the '
    'un-stepped slice (documented by partition[::2])',
    'index(p) for p outside the interval: an exception or the adjacent outer '
    'cell is accepted',
    'shared-grid / query-order: several partitions are built on one '
    'RectGrid (and IntervalProd) object and properties are read in a '
    'generated order; reading must not change any object (grid.stride stays '
    'the documented 0.0 on one-point axes)',
    'mutate-inputs: the arrays the harness passed to the factories '
    '(coordinate vectors, min_pt/max_pt/cell_sides/shape as ndarrays) are '
    'changed in place afterwards; every partition built so far must keep all '
    'its invariants (attributes returned by the library are never written '
    'to)',
    'a negative-step slice that selects exactly one cell (nothing to '
    'reverse) and the empty index list p[[]] (explicit branch returning the '
    '0-d partition) are unspecified: not generated / not judged',
    'the bitwise midpoint clause follows the documented formula '
    '(x[i]+x[i+1])/2; a reformulation a+(b-a)/2 would differ in the last bit '
    'and be reported',
]
RULE = ('Hypothesis draws a construction route and an abstract operation '
        'sequence; non-trivial = (>= 2 axes or a boundary node or a one-point '
        'axis or a non-uniform axis) and at least one invariant sweep '
        'evaluated; distinct by sha1 of the case descriptor')

MAX_NDIM = 6
REJECT = (ValueError, IndexError, TypeError)

# --------------------------------------------------------------------------
# strategy

INT_LIMITS = [0.0, 1.0, -1.0, 2.0, -3.0, 5.0, 10.0, -0.0, 4.0, -7.0]
DYADIC_LIMITS = [0.5, -0.25, 1.5, 0.125, -2.75, 3.0625, -0.5, 12.5]
DYADIC_SIDES = [1.0, 2.0, 0.5, 0.25, 3.0, 1.5, 0.125, 4.0]
GENERIC_SIDES = [0.1, 0.3, 1.0 / 3.0, 0.7, 2.2, 0.05]
GIVEN = ['mMn', 'mnd', 'Mnd', 'mMd', 'mMnd']


def _generic_float(lo, hi):
    return st.floats(lo, hi, allow_nan=False, allow_infinity=False).map(
        lambda v: float(round(v, 6)))


@st.composite
def _uniform_axis(draw, force_n=None):
    lattice = draw(st.sampled_from(['dyadic', 'dyadic', 'generic']))
    if lattice == 'dyadic':
        xmin = draw(st.sampled_from(INT_LIMITS + DYADIC_LIMITS))
        dx = draw(st.sampled_from(DYADIC_SIDES))
    else:
        xmin = draw(st.sampled_from(INT_LIMITS) | _generic_float(-20, 20))
        dx = draw(st.sampled_from(GENERIC_SIDES + DYADIC_SIDES[:3]) |
                  _generic_float(0.05, 5.0))
        if xmin in INT_LIMITS and dx in DYADIC_SIDES:
            dx = 0.3
    n = force_n or draw(st.sampled_from([1, 1, 2, 2, 3, 3, 4, 5, 6, 7, 8, 9]))
    nob = [draw(st.booleans()), draw(st.booleans())]
    if draw(st.integers(0, 2)) == 0:
        nob = [False, False]
    xmax = float(np.float64(xmin) + (n - (nob[0] + nob[1]) / 2.0) *
                 np.float64(dx))
    given = draw(st.sampled_from(GIVEN))
    return {'min': float(xmin), 'max': xmax, 'n': n, 'dx': float(dx),
            'nob': nob, 'given': given, 'lattice': lattice}


@st.composite
def _coord_vector(draw):
    kind = draw(st.sampled_from(['dyadic', 'dyadic', 'generic', 'equal']))
    n = draw(st.sampled_from([1, 2, 2, 3, 3, 4, 5, 6, 7]))
    if kind == 'generic':
        start = draw(st.sampled_from(INT_LIMITS) | _generic_float(-20, 20))
        incs = draw(st.lists(_generic_float(0.05, 3.0), min_size=n - 1,
                             max_size=n - 1))
    elif kind == 'equal':
        start = draw(st.sampled_from(INT_LIMITS + DYADIC_LIMITS))
        incs = [draw(st.sampled_from(DYADIC_SIDES))] * (n - 1)
    else:
        start = draw(st.sampled_from(INT_LIMITS + DYADIC_LIMITS))
        incs = draw(st.lists(st.sampled_from([0.25, 0.5, 1.0, 2.0, 0.75,
                                              3.0]),
                             min_size=n - 1, max_size=n - 1))
    c = [float(start)]
    for d in incs:
        c.append(float(np.float64(c[-1]) + np.float64(d)))
    return c, kind


@st.composite
def _nonuniform_axis(draw, rect=False):
    c, kind = draw(_coord_vector())
    ax = {'c': c, 'lattice': 'dyadic' if kind != 'generic' else 'generic'}
    pads = [0.0, 0.25, 1.0, 0.5, 0.1, 2.5]
    if rect:
        ax['min'] = float(np.float64(c[0]) - draw(st.sampled_from(pads)))
        ax['max'] = float(np.float64(c[-1]) + draw(st.sampled_from(pads)))
        ax['nob'] = [False, False]
        return ax
    nob = [False, False]
    ax['min'] = ax['max'] = None
    for side, key in ((0, 'min'), (1, 'max')):
        mode = draw(st.sampled_from(['auto', 'auto', 'bdry', 'given']))
        if mode == 'bdry':
            nob[side] = True
        elif mode == 'given':
            pad = draw(st.sampled_from(pads))
            ax[key] = float(np.float64(c[0]) - pad if side == 0 else
                            np.float64(c[-1]) + pad)
    ax['nob'] = nob
    return ax


@st.composite
def _partition(draw, max_ndim=4, small=False):
    ctor = draw(st.sampled_from(['uniform', 'uniform', 'uniform', 'uniform',
                                 'nonuniform', 'nonuniform', 'nonuniform',
                                 'rect', 'fromgrid']))
    ndim = draw(st.sampled_from([1, 1, 2, 2, 3, 4][:max_ndim + 2]
                                if not small else [1, 1, 2]))
    ndim = min(ndim, max_ndim)
    if ctor == 'uniform':
        axes = [draw(_uniform_axis()) for _ in range(ndim)]
    else:
        axes = [draw(_nonuniform_axis(rect=(ctor in ('rect', 'fromgrid'))))
                for _ in range(ndim)]
    pd = {'ctor': ctor, 'axes': axes}
    if ctor in ('rect', 'fromgrid'):
        # how the harness hands over coordinate vectors and limits
        pd['inputs_as'] = draw(st.sampled_from(['ndarray', 'ndarray',
                                                'list']))
    else:
        styles = ['compact', 'compact', 'pairs', 'pairs']
        if ndim == 1:
            styles.append('bare')
        pd['nob_style'] = draw(st.sampled_from(styles))
        pd['arg_style'] = draw(st.sampled_from(['list', 'list', 'scalar',
                                                'array', 'array']))
    return pd


SHARED_PADS = [0.0, 0.25, 0.5, 1.0, 2.5, 0.1, 3.0]


@st.composite
def _shared_partition(draw):
    """Two or three partitions on the very same RectGrid object (and, for
    'same_set' members, the very same IntervalProd object)."""
    ndim = draw(st.sampled_from([1, 2, 2, 3]))
    axes = [draw(_nonuniform_axis(rect=True)) for _ in range(ndim)]
    if draw(st.booleans()):
        # a length-1 axis: the grid alone does not fix a cell side there
        k = draw(st.integers(0, ndim - 1))
        axes[k]['c'] = axes[k]['c'][:1]
    members = []
    for j in range(draw(st.integers(2, 3))):
        members.append({
            'route': draw(st.sampled_from(['rect', 'rect', 'fromgrid'])),
            'same_set': j > 0 and draw(st.integers(0, 3)) == 0,
            'pads': [[draw(st.sampled_from(SHARED_PADS)),
                      draw(st.sampled_from(SHARED_PADS))]
                     for _ in range(ndim)]})
    return {'ctor': 'shared', 'axes': axes, 'members': members,
            'inputs_as': draw(st.sampled_from(['ndarray', 'list']))}


READS = ['cell_sides', 'cell_volume', 'cell_boundary_vecs',
         'boundary_cell_fractions', 'cell_sizes_vecs', 'grid.stride',
         'grid.extent', 'is_uniform', 'nodes_on_bdry', 'extent',
         'grid.mid_pt', 'mid_pt', 'has_isotropic_cells', 'grid.min_pt',
         'max_pt', 'is_uniform_byaxis', 'cell_sides', 'cell_volume']


def _entry():
    r = st.integers(0, 999)
    sixteenth = st.integers(0, 16)
    step = st.sampled_from([None, None, 1, 2, 2, 3, 4])
    raw = st.sampled_from([None, 0, 1, 2, 3, 5, 8, -1, -2, -3, -6, 9])
    return st.one_of(
        st.tuples(st.just('i'), r),
        st.tuples(st.just('i'), r),
        st.tuples(st.just('sr'), sixteenth, sixteenth, step,
                  st.integers(0, 7)),
        st.tuples(st.just('sr'), sixteenth, sixteenth, step,
                  st.integers(0, 7)),
        st.tuples(st.just('sr'), sixteenth, sixteenth, step,
                  st.integers(0, 7)),
        st.tuples(st.just('full')),
        st.tuples(st.just('s'), raw, raw,
                  st.sampled_from([None, 1, 2, 3, -1, 0, -2])),
        st.tuples(st.just('ioob'), r),
        st.tuples(st.just('none')),
    ).map(list)


def _entry_valid():
    r = st.integers(0, 999)
    sixteenth = st.integers(0, 16)
    step = st.sampled_from([None, None, 1, 2, 2, 3, 4])
    return st.one_of(
        st.tuples(st.just('i'), r),
        st.tuples(st.just('sr'), sixteenth, sixteenth, step,
                  st.integers(0, 7)),
        st.tuples(st.just('sr'), sixteenth, sixteenth, step,
                  st.integers(0, 7)),
        st.tuples(st.just('full')),
    ).map(list)


@st.composite
def _index_desc(draw):
    form = draw(st.sampled_from(['tuple', 'tuple', 'tuple', 'tuple',
                                 'single', 'list']))
    if form == 'list':
        return {'form': 'list',
                'members': draw(st.lists(st.integers(0, 999), min_size=1,
                                         max_size=5)),
                'mode': draw(st.sampled_from(['sorted', 'sorted', 'sorted',
                                              'raw'])),
                'neg': draw(st.integers(0, 31))}
    # mostly valid entries; one case in four may hold invalid ones
    ent = _entry() if draw(st.integers(0, 3)) == 0 else _entry_valid()
    d = {'form': form,
         'entries': draw(st.lists(ent, min_size=MAX_NDIM + 1,
                                  max_size=MAX_NDIM + 1))}
    if form == 'single':
        d['ell'] = draw(st.integers(0, 9)) == 0
        return d
    d['count'] = draw(st.sampled_from(['all', 'all', 'few', 'few', 'over']) if
                      draw(st.integers(0, 7)) == 0 else
                      st.sampled_from(['all', 'all', 'few']))
    d['r'] = draw(st.integers(0, 99))
    d['ell'] = draw(st.none() | st.integers(0, 9))
    d['ell2'] = draw(st.integers(0, 39)) == 0
    return d


@st.composite
def _axis_sel(draw, allow_list=True):
    kinds = ['int', 'int', 'slice', 'none']
    if allow_list:
        kinds += ['list', 'list']
    k = draw(st.sampled_from(kinds))
    if k == 'int':
        return ['int', draw(st.integers(0, 99)),
                draw(st.integers(0, 11)) == 0]
    if k == 'slice':
        raw = st.sampled_from([None, 0, 1, 2, 3, -1, -2, 4])
        return ['slice', draw(raw), draw(raw),
                draw(st.sampled_from([None, None, 1, 2, -1]))]
    if k == 'list':
        return ['list', draw(st.lists(st.integers(0, 99), min_size=0,
                                      max_size=3)),
                draw(st.integers(0, 15)) == 0]
    return ['none']


@st.composite
def _op(draw):
    kind = draw(st.sampled_from(
        ['getitem'] * 10 + ['insert'] * 2 + ['append'] * 2 +
        ['squeeze'] * 3 + ['byaxis'] * 3 + ['mutate-inputs'] * 2 +
        ['query-order'] * 2))
    if kind == 'query-order':
        return {'op': 'query-order',
                'reads': draw(st.lists(
                    st.tuples(st.integers(0, 99),
                              st.integers(0, len(READS) - 1)).map(list),
                    min_size=2, max_size=14))}
    if kind == 'mutate-inputs':
        return {'op': 'mutate-inputs',
                'how': draw(st.sampled_from(['shift', 'reverse', 'fill']))}
    if kind == 'getitem':
        return {'op': 'getitem', 'idx': draw(_index_desc())}
    if kind == 'insert':
        return {'op': 'insert', 'pos': draw(st.integers(0, 99)),
                'oob': draw(st.integers(0, 11)) == 0,
                'parts': draw(st.lists(_partition(max_ndim=2, small=True),
                                       min_size=0, max_size=2))}
    if kind == 'append':
        return {'op': 'append',
                'parts': draw(st.lists(_partition(max_ndim=2, small=True),
                                       min_size=1, max_size=2))}
    if kind == 'squeeze':
        return {'op': 'squeeze', 'axis': draw(_axis_sel())}
    sel = draw(_axis_sel())
    if sel[0] == 'none':
        sel = ['slice', None, None, None]
    return {'op': 'byaxis', 'idx': sel}


@st.composite
def _strategy(draw):
    init = draw(_shared_partition()) if draw(st.integers(0, 5)) == 0 else \
        draw(_partition())
    nops = draw(st.sampled_from([0, 1, 2, 3, 4, 5, 6, 8]))
    ops = [draw(_op()) for _ in range(nops)]
    return {'init': init, 'ops': ops}


def strategy(tier):
    return _strategy()


# --------------------------------------------------------------------------
# building partitions (library object + model)

def _nob_arg(flags, style):
    """``nodes_on_bdry`` argument for per-axis [l, r] flags in a style."""
    flags = [(bool(l), bool(r)) for l, r in flags]
    if style == 'bare' and len(flags) == 1:
        return flags[0]
    if style == 'pairs':
        return [tuple(f) for f in flags]
    # compact: what the documentation shows
    if all(f == flags[0] and f[0] == f[1] for f in flags):
        return flags[0][0]
    return [f[0] if f[0] == f[1] else tuple(f) for f in flags]


def _vec_arg(vals, style):
    """A min_pt / max_pt / shape / cell_sides argument."""
    if all(v is None for v in vals):
        return None
    if style == 'scalar' and len(vals) == 1:
        return vals[0]
    if style == 'array' and all(v is not None for v in vals):
        return np.array(vals)
    return list(vals)


def _region(pd):
    flags = [tuple(a['nob']) for a in pd['axes']]
    if pd.get('nob_style') == 'bare' and len(flags) == 1:
        return 'nob=bare-pair-1d'
    return 'nob=' + str(pd.get('nob_style', 'none'))


def _tol_limits(ax):
    sc = max(abs(ax['min']), abs(ax['max']), abs(ax['n'] * ax['dx']), 1e-300)
    return 8 * EPS * sc


def build_uniform(pd, given_override=None):
    """Call ``uniform_partition``; return (partition, model, info)."""
    axes = pd['axes']
    mins, maxs, shape, sides = [], [], [], []
    for a in axes:
        g = given_override or a['given']
        mins.append(a['min'] if 'm' in g else None)
        maxs.append(a['max'] if 'M' in g else None)
        shape.append(a['n'] if 'n' in g else None)
        sides.append(a['dx'] if 'd' in g else None)
    style = pd.get('arg_style', 'list')
    kwargs = {'nodes_on_bdry': _nob_arg([a['nob'] for a in axes],
                                        pd.get('nob_style', 'compact'))}
    for key, vals in (('min_pt', mins), ('max_pt', maxs), ('shape', shape),
                      ('cell_sides', sides)):
        arg = _vec_arg(vals, style)
        if arg is not None:
            kwargs[key] = arg
    inputs = [v for v in kwargs.values() if isinstance(v, np.ndarray)]
    region = _region(pd)
    try:
        part = odl.uniform_partition(**kwargs)
    except REJECT as e:
        raise Violation(
            'C14|construct-rejected|uniform_partition|' + region,
            'consistent specification rejected: {!r}: {}: {}'.format(
                kwargs, type(e).__name__, e))
    _require_partition(part, 'uniform_partition', len(axes))

    model = []
    for i, a in enumerate(axes):
        g = given_override or a['given']
        lo, hi, n, dx = ref.uniform_complete(
            a['min'] if 'm' in g else None, a['max'] if 'M' in g else None,
            a['n'] if 'n' in g else None, a['dx'] if 'd' in g else None,
            a['nob'])
        exact = a['lattice'] == 'dyadic'
        sig = 'C14|construct|uniform_partition|{}|given={}'.format(region, g)
        if part.shape[i] != n or n != a['n']:
            raise Violation(sig + '|shape', 'axis {}: shape {} expected {} '
                            '({!r})'.format(i, part.shape[i], a['n'], kwargs))
        got_lo, got_hi = float(part.min_pt[i]), float(part.max_pt[i])
        tol = 0.0 if exact else _tol_limits(a)
        for name, got, want, was_given in (
                ('min', got_lo, lo, 'm' in g), ('max', got_hi, hi, 'M' in g)):
            if was_given:
                if got != float(want):
                    raise Violation(sig + '|limit-given', 'axis {}: {} is '
                                    '{!r}, given {!r}'.format(i, name, got,
                                                              float(want)))
            elif abs(LD(got) - want) > tol:
                raise Violation(
                    sig + '|limit-completed', 'axis {}: {} is {!r}, expected '
                    '{!r} (tol {:.3g}) from {!r}'.format(
                        i, name, got, float(want), tol, kwargs))
        cref, side = ref.uniform_coords(got_lo, got_hi, n, a['nob'])
        c = np.asarray(part.coord_vectors[i], dtype=float)
        ctol = 0.0 if exact else (2 * n + 8) * EPS * max(
            abs(got_lo), abs(got_hi), 1e-300)
        if c.shape != (n,) or np.any(np.abs(c.astype(LD) - cref) > ctol):
            raise Violation(
                sig + '|coords', 'axis {}: grid points {} expected {} (tol '
                '{:.3g}) from {!r}'.format(i, c.tolist(),
                                           cref.astype(float).tolist(), ctol,
                                           kwargs))
        model.append(Axis(c, got_lo, got_hi))
    info = {'kind': 'uniform', 'nob': [tuple(a['nob']) for a in axes],
            'kwargs': kwargs, 'inputs': inputs}
    return part, model, info


def build_nonuniform(pd):
    axes = pd['axes']
    style = pd.get('arg_style', 'list')
    kwargs = {}
    nob = _nob_arg([a['nob'] for a in axes], pd.get('nob_style', 'compact'))
    if nob is not False:
        kwargs['nodes_on_bdry'] = nob
    for key in ('min', 'max'):
        arg = _vec_arg([a[key] for a in axes], style)
        if arg is not None:
            kwargs[key + '_pt'] = arg
    vecs = [np.array(a['c'], dtype=float) if style != 'list' else list(a['c'])
            for a in axes]
    inputs = [v for v in list(kwargs.values()) + vecs
              if isinstance(v, np.ndarray)]
    region = _region(pd)
    try:
        part = odl.nonuniform_partition(*vecs, **kwargs)
    except REJECT as e:
        raise Violation(
            'C14|construct-rejected|nonuniform_partition|' + region,
            'valid specification rejected: {!r} {!r}: {}: {}'.format(
                vecs, kwargs, type(e).__name__, e))
    _require_partition(part, 'nonuniform_partition', len(axes))
    model = []
    for i, a in enumerate(axes):
        sig = 'C14|construct|nonuniform_partition|' + region
        c = np.asarray(part.coord_vectors[i], dtype=float)
        if c.shape != (len(a['c']),) or not np.array_equal(
                c, np.array(a['c'], dtype=float)):
            raise Violation(sig + '|coords', 'axis {}: grid points {} differ '
                            'from the given {}'.format(i, c.tolist(), a['c']))
        lo, hi = ref.nonuniform_limits(a['c'], a['nob'], a['min'], a['max'])
        got_lo, got_hi = float(part.min_pt[i]), float(part.max_pt[i])
        sc = max(abs(float(lo)), abs(float(hi)), 1e-300)
        tol = 0.0 if a['lattice'] == 'dyadic' else 4 * EPS * sc
        for name, got, want, given in (('min', got_lo, lo, a['min']),
                                       ('max', got_hi, hi, a['max'])):
            bad = (got != given) if given is not None else \
                (abs(LD(got) - want) > tol)
            if bad:
                raise Violation(
                    sig + '|limits', 'axis {}: {} is {!r}, expected {!r} for '
                    'points {} kwargs {!r}'.format(i, name, got, float(want),
                                                   a['c'], kwargs))
        model.append(Axis(c, got_lo, got_hi))
    return part, model, {'kind': 'nonuniform', 'inputs': inputs,
                         'nob': [tuple(a['nob']) for a in axes]}


def build_rect(pd):
    """``RectPartition(IntervalProd, RectGrid)`` or
    ``uniform_partition_fromgrid(RectGrid, min_pt, max_pt)``."""
    axes = pd['axes']
    as_arrays = pd.get('inputs_as', 'ndarray') == 'ndarray'
    mins = [a['min'] for a in axes]
    maxs = [a['max'] for a in axes]
    vecs = [list(a['c']) for a in axes]
    if as_arrays:
        mins, maxs = np.array(mins, dtype=float), np.array(maxs, dtype=float)
        vecs = [np.array(v, dtype=float) for v in vecs]
    inputs = [v for v in [mins, maxs] + vecs if isinstance(v, np.ndarray)]
    grid = odl.RectGrid(*vecs)
    try:
        if pd['ctor'] == 'fromgrid':
            site = 'uniform_partition_fromgrid'
            part = odl.uniform_partition_fromgrid(grid, min_pt=mins,
                                                  max_pt=maxs)
        else:
            site = 'RectPartition'
            part = odl.RectPartition(odl.IntervalProd(mins, maxs), grid)
    except REJECT as e:
        raise Violation('C14|construct-rejected|{}|plain'.format(site),
                        'grid inside the interval rejected: {}'.format(e))
    _require_partition(part, site, len(axes))
    model = [Axis(a['c'], a['min'], a['max']) for a in axes]
    return part, model, {'kind': 'rect', 'inputs': inputs}


def build_shared(pd):
    """Several partitions on one RectGrid object."""
    axes = pd['axes']
    vecs = [list(a['c']) for a in axes]
    if pd.get('inputs_as') == 'ndarray':
        vecs = [np.array(v, dtype=float) for v in vecs]
    grid = odl.RectGrid(*vecs)
    members = []
    first_set = None
    first_lims = None
    for j, mb in enumerate(pd['members']):
        los = [float(np.float64(a['c'][0]) - pad[0])
               for a, pad in zip(axes, mb['pads'])]
        his = [float(np.float64(a['c'][-1]) + pad[1])
               for a, pad in zip(axes, mb['pads'])]
        if mb['same_set'] and first_set is not None:
            los, his = first_lims
        try:
            if mb['same_set'] and first_set is not None:
                part = odl.RectPartition(first_set, grid)
                label = 'member {} (same grid and set objects)'.format(j)
            elif mb['route'] == 'fromgrid':
                part = odl.uniform_partition_fromgrid(grid, min_pt=list(los),
                                                      max_pt=list(his))
                label = 'member {} (fromgrid, same grid object)'.format(j)
            else:
                intv = odl.IntervalProd(los, his)
                if first_set is None:
                    first_set, first_lims = intv, (los, his)
                part = odl.RectPartition(intv, grid)
                label = 'member {} (same grid object)'.format(j)
        except REJECT as e:
            raise Violation('C14|construct-rejected|shared-grid|plain',
                            'grid inside the interval rejected: {}'.format(e))
        if first_set is None:
            first_set, first_lims = part.set, (los, his)
        _require_partition(part, 'shared-grid', len(axes))
        model = [Axis(a['c'], lo, hi) for a, lo, hi in zip(axes, los, his)]
        members.append((part, model, label))
    info = {'kind': 'rect', 'members': members, 'grid': grid,
            'inputs': [v for v in vecs if isinstance(v, np.ndarray)]}
    return members[0][0], members[0][1], info


def build_partition(pd):
    if pd['ctor'] == 'shared':
        return build_shared(pd)
    if pd['ctor'] == 'uniform':
        return build_uniform(pd)
    if pd['ctor'] == 'nonuniform':
        return build_nonuniform(pd)
    if pd['ctor'] in ('rect', 'fromgrid'):
        return build_rect(pd)
    raise HarnessError('unknown ctor ' + str(pd['ctor']))


def _require_partition(obj, site, ndim=None):
    if not isinstance(obj, odl.RectPartition):
        raise Violation('C14|type|{}|not-a-partition'.format(site),
                        'returned {!r}'.format(type(obj)))
    if ndim is not None and obj.ndim != ndim:
        raise Violation('C14|ndim|{}|wrong-ndim'.format(site),
                        'ndim {} expected {}'.format(obj.ndim, ndim))


# --------------------------------------------------------------------------
# invariants

def _vec(x, n, what, where):
    try:
        arr = np.asarray(x, dtype=float)
    except (TypeError, ValueError):
        raise Violation('C14|invariant|{}|{}'.format(what, where),
                        'not numeric: {!r}'.format(x))
    if arr.shape != (n,):
        raise Violation('C14|invariant|{}|{}'.format(what, where),
                        'shape {} expected ({},)'.format(arr.shape, n))
    return arr


def check_invariants(part, model, where, info=None):
    """Compare ``part`` with ``model`` and check the tiling invariants."""
    def bad(name, detail):
        raise Violation('C14|invariant|{}|{}'.format(name, where), detail)

    _require_partition(part, where)
    ndim = len(model)
    if part.ndim != ndim:
        bad('ndim', 'ndim {} expected {}'.format(part.ndim, ndim))
    shape = tuple(a.n for a in model)
    if tuple(part.shape) != shape:
        bad('shape', 'shape {} expected {}'.format(part.shape, shape))
    size = int(np.prod(shape, dtype=int)) if ndim else 0
    if part.size != size:
        bad('size', 'size {} expected {}'.format(part.size, size))
    if ndim == 0:
        return
    if len(part) != shape[0]:
        bad('len', 'len {} expected {}'.format(len(part), shape[0]))
    for name in ('coord_vectors', 'cell_boundary_vecs', 'cell_sizes_vecs',
                 'boundary_cell_fractions', 'nodes_on_bdry_byaxis',
                 'is_uniform_byaxis'):
        if len(getattr(part, name)) != ndim:
            bad(name, 'length {} expected {}'.format(
                len(getattr(part, name)), ndim))
    mins = _vec(part.min_pt, ndim, 'min_pt', where)
    maxs = _vec(part.max_pt, ndim, 'max_pt', where)
    ext = _vec(part.extent, ndim, 'extent', where)
    all_uniform = True
    for i, ax in enumerate(model):
        n = ax.n
        c = _vec(part.coord_vectors[i], n, 'coord_vectors', where)
        if not np.array_equal(c, ax.c):
            bad('grid-points', 'axis {}: {} expected {}'.format(
                i, c.tolist(), ax.c.tolist()))
        if mins[i] != ax.lo or maxs[i] != ax.hi:
            bad('limits', 'axis {}: [{!r}, {!r}] expected [{!r}, {!r}]'
                ''.format(i, mins[i], maxs[i], ax.lo, ax.hi))
        sc = ref.scale(ax)
        if abs(ext[i] - (ax.hi - ax.lo)) > 2 * EPS * sc:
            bad('extent', 'axis {}: {!r}'.format(i, ext[i]))
        # --- boundaries: midpoint rule, exact limits, monotone, own cell
        b = _vec(part.cell_boundary_vecs[i], n + 1, 'cell_boundary_vecs',
                 where)
        bref = ref.boundaries(ax)
        if not np.array_equal(b, bref):
            bad('midpoint-rule', 'axis {}: boundaries {} expected {}'.format(
                i, b.tolist(), bref.tolist()))
        if b[0] != ax.lo or b[-1] != ax.hi:
            bad('boundary-limits', 'axis {}: {!r}..{!r}'.format(i, b[0],
                                                                  b[-1]))
        if ax.hi > ax.lo and n > 1 and not np.all(np.diff(b) > 0):
            bad('monotone', 'axis {}: boundaries {}'.format(i, b.tolist()))
        if np.any(np.diff(b) < 0):
            bad('monotone', 'axis {}: boundaries decrease {}'.format(
                i, b.tolist()))
        if not (np.all(b[:-1] <= c) and np.all(c <= b[1:])):
            bad('own-cell', 'axis {}: points {} boundaries {}'.format(
                i, c.tolist(), b.tolist()))
        # --- cell sizes
        cs = _vec(part.cell_sizes_vecs[i], n, 'cell_sizes_vecs', where)
        csref = ref.cell_sizes(ax)
        if n == 1:
            if cs[0] != 0.0:
                bad('cell-sizes-one-point', 'axis {}: {!r} (documented 0.0)'
                    ''.format(i, cs[0]))
        else:
            if np.any(np.abs(cs.astype(LD) - csref) > 8 * EPS * sc):
                bad('cell-sizes', 'axis {}: {} expected {}'.format(
                    i, cs.tolist(), csref.astype(float).tolist()))
            if abs(np.sum(cs.astype(LD)) - (LD(ax.hi) - LD(ax.lo))) > \
                    4 * (n + 2) * EPS * sc:
                bad('cell-sizes-sum', 'axis {}: sum {!r} extent {!r}'.format(
                    i, float(np.sum(cs)), ax.hi - ax.lo))
        # --- boundary fractions and boundary nodes
        fr = part.boundary_cell_fractions[i]
        frref, frtol = ref.fractions(ax), ref.fraction_tol(ax)
        try:
            fr = (float(fr[0]), float(fr[1]))
        except (TypeError, ValueError, IndexError):
            bad('fractions', 'axis {}: {!r}'.format(i, fr))
        for s in (0, 1):
            if not abs(LD(fr[s]) - frref[s]) <= frtol[s]:
                bad('fractions', 'axis {} side {}: {!r} expected {!r}'.format(
                    i, s, fr[s], float(frref[s])))
        nob = part.nodes_on_bdry_byaxis[i]
        want = ref.on_boundary(ax)
        for s in (0, 1):
            if want[s] is not None and bool(nob[s]) != want[s]:
                bad('nodes-on-bdry', 'axis {} side {}: {!r}, node {!r} limit '
                    '{!r}'.format(i, s, nob[s], ax.c[0 if s == 0 else -1],
                                  ax.lo if s == 0 else ax.hi))
        # --- uniformity and cell sides
        uni = ref.uniformity(ax)
        got_uni = bool(part.is_uniform_byaxis[i])
        if uni is not None and got_uni != uni:
            bad('is-uniform', 'axis {}: {} for points {}'.format(
                i, got_uni, ax.c.tolist()))
        all_uniform = all_uniform and got_uni
    # --- the grid object: stride is the documented 0.0 on one-point axes,
    # NaN on non-uniform axes, the node spacing otherwise
    stride = _vec(part.grid.stride, ndim, 'grid.stride', where)
    gext = _vec(part.grid.extent, ndim, 'grid.extent', where)
    for i, ax in enumerate(model):
        if ax.n == 1:
            if stride[i] != 0.0:
                bad('grid-stride', 'axis {}: grid.stride is {!r} on a '
                    'one-point axis (documented 0.0)'.format(i, stride[i]))
        elif bool(part.is_uniform_byaxis[i]):
            want = (LD(ax.c[-1]) - LD(ax.c[0])) / (ax.n - 1)
            if not abs(stride[i] - want) <= 8 * EPS * ref.scale(ax):
                bad('grid-stride', 'axis {}: grid.stride {!r} expected {!r}'
                    ''.format(i, stride[i], float(want)))
        elif not np.isnan(stride[i]):
            bad('grid-stride', 'axis {}: grid.stride {!r} on a non-uniform '
                'axis (documented NaN)'.format(i, stride[i]))
        if gext[i] != ax.c[-1] - ax.c[0]:
            bad('grid-extent', 'axis {}: grid.extent {!r}'.format(i, gext[i]))
    if bool(part.is_uniform) != all_uniform:
        bad('is-uniform', 'is_uniform {} but by axis {}'.format(
            part.is_uniform, part.is_uniform_byaxis))
    compact = ref.compress_nodes_on_bdry(
        [tuple(bool(v) for v in t) for t in part.nodes_on_bdry_byaxis])
    if part.nodes_on_bdry != compact:
        bad('nodes-on-bdry-compact', '{!r} expected {!r}'.format(
            part.nodes_on_bdry, compact))
    if all_uniform and all(ref.uniformity(a) for a in model):
        sides = _vec(part.cell_sides, ndim, 'cell_sides', where)
        for i, ax in enumerate(model):
            sc = ref.scale(ax)
            if ax.n > 1:
                want = (LD(ax.c[-1]) - LD(ax.c[0])) / (ax.n - 1)
                if abs(sides[i] - want) > 8 * EPS * sc:
                    bad('cell-sides', 'axis {}: {!r} expected {!r}'.format(
                        i, sides[i], float(want)))
            flags = ref.on_boundary(ax)
            if None in flags:
                continue
            cells = ax.n - (flags[0] + flags[1]) / 2.0
            fr = ref.fractions(ax)
            regular = all(abs(float(f) - (0.5 if fl else 1.0)) < 1e-9
                          for f, fl in zip(fr, flags)) or ax.n == 1
            if ax.n == 1 and (flags[0] or flags[1]):
                continue
            if regular and abs(LD(sides[i]) * cells - (LD(ax.hi) - LD(ax.lo))
                               ) > (2 * ax.n + 8) * EPS * sc:
                bad('side-times-count', 'axis {}: {!r} * {} != extent {!r}'
                    ''.format(i, sides[i], cells, ax.hi - ax.lo))
        vol = float(np.prod(sides))
        if abs(part.cell_volume - vol) > 8 * EPS * abs(vol):
            bad('cell-volume', '{!r} expected {!r}'.format(part.cell_volume,
                                                           vol))
    if info is not None and info.get('kind') in ('uniform', 'nonuniform'):
        # factory-made: requested flags are what the partition reports
        for i, (ax, flags) in enumerate(zip(model, info['nob'])):
            want = ref.on_boundary(ax)
            got = part.nodes_on_bdry_byaxis[i]
            for s in (0, 1):
                if ax.n == 1 and ax.lo == ax.hi:
                    continue
                if flags[s] and not got[s]:
                    bad('requested-bdry-node', 'axis {} side {}: requested '
                        'boundary node not reported'.format(i, s))
                if not flags[s] and want[s] is False and got[s]:
                    bad('requested-bdry-node', 'axis {} side {}: spurious '
                        'boundary node'.format(i, s))
            if info['kind'] == 'uniform' and ax.n > 1:
                fr = part.boundary_cell_fractions[i]
                for s in (0, 1):
                    exp = 0.5 if flags[s] else 1.0
                    if abs(float(fr[s]) - exp) > ref.fraction_tol(ax)[s] * 4:
                        bad('uniform-fraction', 'axis {} side {}: fraction '
                            '{!r} expected {}'.format(i, s, fr[s], exp))
    # --- points / meshgrid
    if size <= 400:
        pts = np.asarray(part.points())
        pref = ref.points(model)
        if pts.shape != pref.shape or not np.array_equal(pts, pref):
            bad('points', 'points() differ from the tensor product')
        mesh = part.meshgrid
        if len(mesh) != ndim or any(
                np.asarray(m).shape != tuple(
                    ax.n if j == i else 1 for j in range(ndim))
                or not np.array_equal(np.asarray(m).ravel(), ax.c)
                for i, (m, ax) in enumerate(zip(mesh, model))):
            bad('meshgrid', 'meshgrid differs from the coordinate vectors')
    # --- equality with a partition rebuilt from the model's numbers
    rebuilt = odl.RectPartition(
        odl.IntervalProd([a.lo for a in model], [a.hi for a in model]),
        odl.RectGrid(*[a.c for a in model]))
    if not (part == rebuilt) or (part != rebuilt):
        bad('equality', 'partition != partition rebuilt from its own grid '
            'points and limits')
    if hash(part) != hash(rebuilt):
        bad('hash', 'equal partitions, unequal hashes')


def check_index(part, model, where, full=True):
    """``index(p)`` on every boundary, limit, node, midpoint, +-1 ulp."""
    ndim = len(model)
    if ndim == 0:
        return 0
    lists = [ref.probe_values(ax) for ax in model]
    bs = [ref.boundaries(ax) for ax in model]
    scales = [ref.scale(ax) for ax in model]
    count = max(len(v) for v in lists)
    cap = 90 if full else 32      # most telling values come first
    step = 1
    nprobe = 0
    for j in range(min(count, cap)):
        pt = [v[j % len(v)] for v in lists]
        arg = pt[0] if ndim == 1 else (list(pt) if j % 2 else
                                       np.array(pt))
        for floating in (False, True):
            try:
                got = part.index(arg, floating=floating)
            except Exception as e:  # noqa
                raise Violation(
                    'C14|index|raises|floating={}'.format(floating),
                    '{}: index({!r}) raised {}: {} (limits {})'.format(
                        where, arg, type(e).__name__, e,
                        [(a.lo, a.hi) for a in model]))
            if ndim == 1:
                if isinstance(got, tuple):
                    raise Violation('C14|index|return-type|ndim=1',
                                    'tuple returned for a 1-d partition')
                got = (got,)
            elif not isinstance(got, tuple) or len(got) != ndim:
                raise Violation('C14|index|return-type|ndim>1',
                                'returned {!r}'.format(got))
            for i, (ax, v, g) in enumerate(zip(model, pt, got)):
                if not floating:
                    cell = ref.locate(ax, v, bs[i])
                    if isinstance(g, bool) or not isinstance(
                            g, numbers.Integral):
                        raise Violation('C14|index|return-type|int',
                                        'index is {!r}'.format(type(g)))
                    if int(g) != cell:
                        b = ref.boundaries(ax)
                        raise Violation(
                            'C14|index|wrong-cell|' + _pos_class(ax, v),
                            '{}: axis {}: index({!r}) = {} expected {}; '
                            'boundaries {}'.format(where, i, v, g, cell,
                                                   b.tolist()))
                else:
                    if isinstance(g, bool) or not isinstance(
                            g, numbers.Real):
                        raise Violation('C14|index|return-type|float',
                                        'index is {!r}'.format(type(g)))
                    fref, ftol = ref.floating_index(ax, v, bs[i])
                    if not abs(float(g) - fref) <= ftol:
                        raise Violation(
                            'C14|index|floating-value|' + _pos_class(ax, v),
                            '{}: axis {}: index({!r}, floating=True) = {!r} '
                            'expected {!r} (tol {:.3g}); boundaries {}'
                            ''.format(where, i, v, g, fref, ftol,
                                      ref.boundaries(ax).tolist()))
                    back = ref.from_floating(ax, float(g), bs[i])
                    if abs(back - v) > 16 * EPS * scales[i]:
                        raise Violation(
                            'C14|index|floating-roundtrip|' +
                            _pos_class(ax, v),
                            '{}: axis {}: {!r} -> {!r} -> {!r}'.format(
                                where, i, v, g, back))
            nprobe += 1
        if j < 5 * step:
            # the documented idiom p[p.index(v)] extracts the cell of v
            idx = part.index(arg)
            try:
                sub = part[idx]
            except Exception as e:  # noqa
                raise Violation('C14|index|as-index|raises',
                                'p[p.index({!r})] raised {}'.format(arg, e))
            _require_partition(sub, 'p[p.index(v)]', ndim)
            lo, hi = np.asarray(sub.min_pt), np.asarray(sub.max_pt)
            if tuple(sub.shape) != (1,) * ndim or not (
                    np.all(lo <= np.asarray(pt)) and
                    np.all(np.asarray(pt) <= hi)):
                raise Violation('C14|index|as-index|wrong-cell',
                                'p[p.index({!r})] = [{}, {}]'.format(
                                    arg, lo.tolist(), hi.tolist()))
    # one ulp outside: an exception, or the adjacent outer cell
    for i, ax in enumerate(model if full else []):
        for side, v in enumerate(ref.outside_values(ax)):
            pt = [0.5 * (a.lo + a.hi) for a in model]
            pt[i] = v
            try:
                got = part.index(pt[0] if ndim == 1 else pt)
            except Exception:  # noqa
                continue
            g = got if ndim == 1 else got[i]
            if int(g) != (0 if side == 0 else ax.n - 1):
                raise Violation('C14|index|outside|silent',
                                'index({!r}) = {!r} for a point outside'
                                ''.format(pt, got))
    return nprobe


def _pos_class(ax, v):
    b = ref.boundaries(ax)
    if v == ax.lo:
        return 'at-min'
    if v == ax.hi:
        return 'at-max'
    if np.any(b[1:-1] == v):
        return 'on-interior-boundary'
    return 'inside-cell'


# --------------------------------------------------------------------------
# resolving abstract operations against the current shape

def _resolve_entry(e, n):
    k = e[0]
    if k == 'i':
        return (e[1] % (2 * n)) - n
    if k == 'ioob':
        r = e[1]
        return n + (r // 2) % 3 if r % 2 == 0 else -n - 1 - (r // 2) % 3
    if k == 'full':
        return slice(None)
    if k == 'none':
        return None
    if k == 's':
        return slice(e[1], e[2], e[3])
    if k == 'sr':
        fa, fb, step, form = e[1], e[2], e[3], e[4]
        start = (fa * n) // 17
        stop = start + 1 + (fb * (n - start)) // 17
        stop = min(stop, n)
        s0, s1 = start, stop
        if form & 1 and start > 0:
            s0 = start - n
        if form & 2:
            s1 = stop - n if stop < n else None
        if form & 4 and start == 0:
            s0 = None
        if stop == n and not form & 2 and form & 4:
            s1 = n + 2            # clipping beyond the end is Python semantics
        return slice(s0, s1, step)
    raise HarnessError('bad entry {!r}'.format(e))


def resolve_index(d, shape):
    ndim = len(shape)
    if d['form'] == 'list':
        n = shape[0]
        members = [m % n for m in d['members']]
        if d['mode'] == 'sorted':
            members = sorted(set(members))
        out = []
        for j, m in enumerate(members):
            out.append(m - n if (d['neg'] >> j) & 1 else m)
        return out
    ent = d['entries']
    if d['form'] == 'single':
        if d.get('ell'):
            return Ellipsis
        return _resolve_entry(ent[0], shape[0])
    if d['count'] == 'all':
        k = ndim
    elif d['count'] == 'few':
        k = d['r'] % (ndim + 1)
    else:
        k = ndim + 1
    pos = None if d['ell'] is None else d['ell'] % (k + 1)
    items = []
    for j in range(k):
        if pos is None or j < pos:
            axis = j
        else:
            axis = ndim - (k - j)
        n = shape[axis] if 0 <= axis < ndim else 2
        items.append(_resolve_entry(ent[j], n))
    if pos is not None:
        items.insert(pos, Ellipsis)
        if d.get('ell2'):
            items.append(Ellipsis)
    return tuple(items)


def _resolve_axis_sel(sel, ndim):
    k = sel[0]
    if k == 'none':
        return None
    if k == 'int':
        if sel[2]:
            return ndim + sel[1] % 2 if sel[1] % 3 else -ndim - 1
        return (sel[1] % (2 * ndim)) - ndim
    if k == 'slice':
        return slice(sel[1], sel[2], sel[3])
    if k == 'list':
        out = [(r % (2 * ndim)) - ndim for r in sel[1]]
        if sel[2]:
            out.append(ndim)
        return out
    raise HarnessError('bad axis selection {!r}'.format(sel))


def _index_class(idx, shape):
    """Short class name of a concrete index expression (for signatures)."""
    if isinstance(idx, list):
        return 'list'
    items = idx if isinstance(idx, tuple) else (idx,)
    names = set()
    for axis_guess, it in enumerate(items):
        if it is None:
            names.add('none')
        elif it is Ellipsis:
            names.add('ellipsis')
        elif isinstance(it, slice):
            if it.step is not None and it.step <= 0:
                names.add('nonpos-step')
            elif it.step not in (None, 1):
                names.add('stepped')
            else:
                names.add('slice')
        else:
            names.add('int')
    return '+'.join(sorted(names))


def _oob_class(idx, shape):
    """Region of an invalid index that the library accepted."""
    if isinstance(idx, list):
        return 'list'
    try:
        items = ref._expand(idx, len(shape))
    except Invalid:
        return 'structure'
    for it, n in zip(items, shape):
        if isinstance(it, slice):
            if it.step is not None and it.step <= 0:
                return 'nonpos-step'
            if not list(range(n))[it]:
                return 'empty-slice'
        elif it < -n:
            return 'int-below-minus-n'
        elif it >= n:
            return 'int-above-n'
    return 'other'


# --------------------------------------------------------------------------
# the case

def _axes_summary(model):
    return [(a.c.tolist(), a.lo, a.hi) for a in model]


def run_case(desc):
    strata = []
    notes = {}
    init = desc['init']
    part, model, info = build_partition(init)
    strata.append('ctor:' + init['ctor'])
    strata.append('ndim:{}'.format(len(model)))
    if init['ctor'] == 'uniform':
        for a in init['axes']:
            strata.append('given:' + a['given'])
            strata.append('nob:{}{}'.format(int(a['nob'][0]),
                                            int(a['nob'][1])))
            strata.append('lattice:' + a['lattice'])
            if 'n' in a['given'] and 'd' in a['given'] and \
                    len(a['given']) == 4 and any(a['nob']):
                strata.append('four-params-with-bdry-node')
    if 'nob_style' in init:
        strata.append('nob_style:' + init['nob_style'])
        strata.append('arg_style:' + init['arg_style'])
    if any(a.n == 1 for a in model):
        strata.append('one-point-axis')
    if any(a.lo == a.hi for a in model):
        strata.append('zero-extent-axis')
    if any(ref.uniformity(a) is False for a in model):
        strata.append('nonuniform-axis')
    has_bdry = any(True in ref.on_boundary(a) for a in model)
    if has_bdry:
        strata.append('boundary-node')

    check_invariants(part, model, 'init:' + init['ctor'], info)
    nprobe = check_index(part, model, 'init')
    check_set_ops(part, model)
    sweeps = 1
    # construct / mutate-input / observe: the ndarrays handed to the library
    # and every partition seen so far
    inputs = list(info.get('inputs', []))
    history = [(part, model, 'init')]
    if init['ctor'] == 'shared':
        members = info['members']
        history = list(members)
        strata.append('shared:members={}'.format(len(members)))
        if any(mb['same_set'] for mb in init['members'][1:]):
            strata.append('shared:same-set-object')
        if any(a.n == 1 for a in model):
            strata.append('shared:one-point-axis')
        for mpart, mmodel, label in members[1:]:
            try:
                check_invariants(mpart, mmodel, 'init:shared')
            except Violation as v:
                raise Violation(v.signature, label + ': ' + v.detail)
            nprobe += check_index(mpart, mmodel, 'init:shared', full=False)
        recheck_all(history, 'init:shared', 'construction of all members')
    if any(a.dtype == np.float64 for a in inputs):
        strata.append('inputs-as:float64-ndarray')
    notes['mutated_arrays'] = 0
    notes['history_rechecks'] = 0

    if init['ctor'] == 'uniform':
        nvar = check_variants(init, part, model)
        notes['variants'] = nvar

    for k, op in enumerate(desc['ops']):
        name = op['op']
        ndim = len(model)
        shape = tuple(a.n for a in model)
        if name == 'query-order':
            nread = 0
            for r_part, r_prop in op['reads']:
                target = history[r_part % len(history)][0]
                if target.ndim == 0:
                    continue
                obj = target
                for attr in READS[r_prop % len(READS)].split('.'):
                    obj = getattr(obj, attr)
                nread += 1
            recheck_all(history, 'query-order',
                        'step {}: reading {} properties'.format(k, nread))
            notes['property_reads'] = notes.get('property_reads', 0) + nread
            notes['history_rechecks'] += len(history)
            strata.append('op:query-order')
            strata.append('query-order:partitions={}'.format(
                min(len(history), 4)))
            continue
        if name == 'mutate-inputs':
            nmut = mutate_arrays(inputs, op['how'])
            recheck_all(history, 'mutate-inputs',
                        'step {}: after changing the {} caller-owned input '
                        'arrays in place ({})'.format(k, nmut, op['how']))
            if ndim:
                nprobe += check_index(part, model, 'mutate-inputs',
                                      full=False)
            notes['mutated_arrays'] += nmut
            notes['history_rechecks'] += len(history)
            strata.append('op:mutate-inputs')
            strata.append('mutate-inputs:' + ('ndarray-inputs' if nmut else
                                              'no-ndarray-inputs'))
            strata.append('mutate-how:' + op['how'])
            continue
        if ndim == 0 and name not in ('insert', 'append'):
            strata.append('skipped:0-dim')
            continue
        new_model = None
        invalid = None
        cls = name
        if name == 'getitem':
            idx = resolve_index(op['idx'], shape)
            cls = 'getitem:' + _index_class(idx, shape)
            try:
                new_model = ref.getitem(model, idx)
            except Invalid as e:
                invalid = str(e)
            except Unspecified:
                strata.append('unspecified:negative-step-single-cell')
                continue

            def call():
                return part[idx]
            shown = repr(idx)
        elif name in ('insert', 'append'):
            built = [build_partition(pd) for pd in op['parts']]
            parts = [b[0] for b in built]
            pmodels = [b[1] for b in built]
            if ndim + sum(len(m) for m in pmodels) > MAX_NDIM:
                strata.append('skipped:max-ndim')
                continue
            for b in built:
                inputs.extend(b[2].get('inputs', []))
                history.append((b[0], b[1], 'inserted part'))
            if name == 'insert':
                pos = (op['pos'] % (2 * ndim + 1)) - ndim
                if op['oob']:
                    pos = ndim + 1 + op['pos'] % 2 if op['pos'] % 3 else \
                        -ndim - 1
                    cls = 'insert:oob'
                elif pos < 0:
                    cls = 'insert:negative'
                try:
                    new_model = ref.insert(model, pos, pmodels)
                except Invalid as e:
                    invalid = str(e)

                def call():
                    return part.insert(pos, *parts)
                shown = 'insert({}, {} parts)'.format(pos, len(parts))
            else:
                new_model = ref.append(model, pmodels)

                def call():
                    return part.append(*parts)
                shown = 'append({} parts)'.format(len(parts))
        elif name == 'squeeze':
            axis = _resolve_axis_sel(op['axis'], ndim)
            cls = 'squeeze:' + op['axis'][0]
            try:
                new_model = ref.squeeze(model, axis)
            except Invalid as e:
                invalid = str(e)

            def call():
                return part.squeeze() if axis is None and \
                    op['axis'][0] == 'none' else part.squeeze(axis)
            shown = 'squeeze({!r})'.format(axis)
        elif name == 'byaxis':
            sel = _resolve_axis_sel(op['idx'], ndim)
            cls = 'byaxis:' + op['idx'][0]
            try:
                new_model = ref.byaxis(model, sel)
            except Invalid as e:
                invalid = str(e)

            def call():
                return part.byaxis[sel]
            shown = 'byaxis[{!r}]'.format(sel)
        else:
            raise HarnessError('unknown op ' + name)

        before = _axes_summary(model)
        try:
            result = call()
            raised = None
        except REJECT as e:
            result, raised = None, e
        if invalid is not None:
            if raised is None:
                region = _oob_class(idx, shape) if name == 'getitem' else cls
                raise Violation(
                    'C14|accepted-invalid|{}|{}'.format(name, region),
                    'step {}: {} on shape {} is invalid ({}) but returned '
                    '{!r}'.format(k, shown, shape, invalid, result))
            strata.append('rejected:' + cls)
            continue
        if raised is not None:
            raise Violation(
                'C14|rejected-valid|{}|{}'.format(name, cls),
                'step {}: {} on shape {} raised {}: {}; axes {}'.format(
                    k, shown, shape, type(raised).__name__, raised, before))
        where = name
        if name == 'getitem':
            where = 'getitem:' + ('list' if isinstance(idx, list) else
                                  'stepped' if 'stepped' in cls else
                                  'contiguous')
        try:
            check_invariants(result, new_model, where)
        except Violation as v:
            raise Violation(v.signature, 'step {}: {} on {}: {}'.format(
                k, shown, before, v.detail))
        # the operand is immutable
        check_unchanged(part, model, where)
        if name == 'getitem' and not isinstance(idx, list):
            check_contiguous_boundaries(part, result, model, idx, where)
        part, model = result, new_model
        history.append((part, model, shown))
        nprobe += check_index(part, model, where, full=False)
        sweeps += 1
        strata.append('op:' + cls)
        if ':' in cls:
            strata.append('op:' + name)
        if name == 'getitem':
            for part_name in cls.split(':')[1].split('+'):
                strata.append('op:getitem:' + part_name)
        if len(model) == 0:
            strata.append('reached:0-dim')

    strata.append('steps:{}'.format(min(sweeps - 1, 8)))
    notes['index_probes'] = nprobe
    notes['invariant_sweeps'] = sweeps
    nontriv = (len(desc['init']['axes']) >= 2 or has_bdry or
               'one-point-axis' in strata or 'nonuniform-axis' in strata)
    return Outcome('ok', strata=strata, nontrivial=nontriv, notes=notes)


def _nan_equal(a, b):
    a, b = np.asarray(a, dtype=float), np.asarray(b, dtype=float)
    return a.shape == b.shape and bool(np.all((a == b) |
                                              (np.isnan(a) & np.isnan(b))))


def recheck_all(history, where, what):
    """Reading properties (in any order, on any partition of the case) must
    not change any object: all invariants again on every partition, and
    partitions with identical data must agree on the derived quantities."""
    for old_part, old_model, label in history:
        try:
            check_invariants(old_part, old_model, where)
        except Violation as v:
            raise Violation(v.signature, '{}: partition "{}" no longer '
                            'satisfies: {}'.format(what, label, v.detail))
    for i in range(len(history)):
        for j in range(i + 1, len(history)):
            pi, mi, li = history[i]
            pj, mj, lj = history[j]
            if len(mi) == 0 or len(mi) != len(mj) or not all(
                    np.array_equal(a.c, b.c) and a.lo == b.lo and a.hi == b.hi
                    for a, b in zip(mi, mj)):
                continue
            if not (pi == pj) or not _nan_equal(pi.cell_sides,
                                                pj.cell_sides) or \
                    not _nan_equal(pi.cell_volume, pj.cell_volume):
                raise Violation(
                    'C14|invariant|equal-partitions-differ|' + where,
                    '{}: "{}" and "{}" hold identical data but cell_sides '
                    '{} vs {}, cell_volume {!r} vs {!r}, == {}'.format(
                        what, li, lj, pi.cell_sides, pj.cell_sides,
                        pi.cell_volume, pj.cell_volume, pi == pj))


def mutate_arrays(arrays, how):
    """Change the harness' own input arrays in place; returns how many."""
    n = 0
    for arr in arrays:
        if not isinstance(arr, np.ndarray) or not arr.flags.writeable:
            continue
        if arr.dtype.kind in 'iu':
            arr += 1
        elif how == 'reverse' and arr.size > 1:
            arr[:] = arr[::-1].copy()
        elif how == 'fill':
            arr[:] = 7.25
        else:
            arr += 1.5
        n += 1
    return n


def check_set_ops(part, model):
    """The interval product behind the partition: axis selection and
    collapse (anchored helpers of the sub-partition construction)."""
    ndim = len(model)
    intv = part.set
    los = np.array([a.lo for a in model])
    his = np.array([a.hi for a in model])

    def same(got, lo, hi, what):
        if not isinstance(got, odl.IntervalProd) or \
                not np.array_equal(np.asarray(got.min_pt), np.asarray(lo)) or \
                not np.array_equal(np.asarray(got.max_pt), np.asarray(hi)):
            raise Violation('C14|set|{}|IntervalProd'.format(what),
                            '{!r}: got {!r} expected [{}, {}]'.format(
                                what, got, list(lo), list(hi)))

    sel = [0, ndim - 1, 0][:ndim + 1]
    same(intv[sel], los[sel], his[sel], 'getitem-list')
    same(intv[::2], los[::2], his[::2], 'getitem-slice')
    same(intv[-1], los[-1:], his[-1:], 'getitem-int')
    for i in (0, ndim - 1):
        v = float(model[i].c[0])
        lo, hi = los.copy(), his.copy()
        lo[i] = hi[i] = v
        same(intv.collapse(i, v), lo, hi, 'collapse')
    if ndim >= 2:
        vals = [float(model[0].c[-1]), float(model[1].c[0])]
        lo, hi = los.copy(), his.copy()
        lo[:2] = hi[:2] = vals
        same(intv.collapse([0, 1], vals), lo, hi, 'collapse')
    for bad_v in (float(np.nextafter(his[0], np.inf)),
                  float(np.nextafter(los[0], -np.inf))):
        try:
            intv.collapse(0, bad_v)
        except REJECT:
            continue
        raise Violation('C14|set|collapse-outside|IntervalProd',
                        'collapse to {!r} outside [{!r}, {!r}] accepted'
                        ''.format(bad_v, los[0], his[0]))


def check_unchanged(part, model, where):
    for i, ax in enumerate(model):
        if not np.array_equal(np.asarray(part.coord_vectors[i]), ax.c) or \
                part.min_pt[i] != ax.lo or part.max_pt[i] != ax.hi or \
                not np.array_equal(np.asarray(part.cell_boundary_vecs[i]),
                                   ref.boundaries(ax)):
            raise Violation('C14|operand-modified|{}|axis'.format(where),
                            'axis {} of the operand changed'.format(i))


def check_contiguous_boundaries(part, result, model, idx, where):
    """Contiguous selections keep the original cell boundaries bit-for-bit."""
    items = ref._expand(idx, len(model))
    for i, (ax, it) in enumerate(zip(model, items)):
        if not ref.contiguous(it, ax.n):
            continue
        cells = list(range(ax.n))[it] if isinstance(it, slice) else \
            [it + ax.n if it < 0 else it]
        orig = np.asarray(part.cell_boundary_vecs[i])[
            cells[0]:cells[-1] + 2]
        new = np.asarray(result.cell_boundary_vecs[i])
        if not np.array_equal(orig, new):
            raise Violation(
                'C14|invariant|selected-cells|' + where,
                'axis {}: cells {} of {} have boundaries {} but the '
                'sub-partition has {}'.format(i, cells, ax.c.tolist(),
                                              orig.tolist(), new.tolist()))


# --------------------------------------------------------------------------
# equivalent specifications of one uniform partition

def _same(part, other, model, exact, label, base_kwargs):
    """``other`` describes the partition ``part`` (model ``model``)."""
    sig = 'C14|variants|{}|{}'.format(label, 'exact' if exact else 'approx')
    _require_partition(other, label, len(model))
    if tuple(other.shape) != tuple(part.shape):
        raise Violation(sig + '|shape', '{} vs {}'.format(other.shape,
                                                         part.shape))
    sc_all = 0.0
    for i, ax in enumerate(model):
        sc = ref.scale(ax)
        sc_all = max(sc_all, sc)
        tol = 0.0 if exact else (4 * ax.n + 24) * EPS * sc
        c = np.asarray(other.coord_vectors[i], dtype=float)
        if c.shape != ax.c.shape or np.any(np.abs(c - ax.c) > tol) or \
                abs(other.min_pt[i] - ax.lo) > tol or \
                abs(other.max_pt[i] - ax.hi) > tol:
            raise Violation(
                sig + '|values', 'axis {}: points {} limits [{!r}, {!r}] vs '
                'points {} limits [{!r}, {!r}] (tol {:.3g}); base {!r}'
                ''.format(i, c.tolist(), other.min_pt[i], other.max_pt[i],
                          ax.c.tolist(), ax.lo, ax.hi, tol, base_kwargs))
    if exact:
        if not (other == part) or other != part or \
                hash(other) != hash(part):
            raise Violation(sig + '|eq', 'bitwise identical data but == is '
                            'False or hashes differ')
    if not other.approx_equals(part, atol=1e-9 * max(sc_all, 1.0)):
        raise Violation(sig + '|approx_equals', 'approx_equals is False')


def check_variants(init, part, model):
    exact = all(a['lattice'] == 'dyadic' for a in init['axes'])
    count = 0
    base_kwargs = None
    # (a) every global 3- and 4-parameter subset, compact argument style
    for g in GIVEN:
        for nob_style in ('compact', 'pairs'):
            pd = dict(init, nob_style=nob_style, arg_style='list')
            other, _, info = build_uniform(pd, given_override=g)
            _same(part, other, model, exact, 'given=' + g, info['kwargs'])
            count += 1
    axes = init['axes']
    nob = [tuple(a['nob']) for a in axes]
    mins = [a.lo for a in model]
    maxs = [a.hi for a in model]
    shape = [a.n for a in model]
    # (b) from the interval product
    intv = odl.IntervalProd(mins, maxs)
    for style in ('compact', 'pairs'):
        arg = _nob_arg(nob, style)
        try:
            other = odl.uniform_partition_fromintv(
                intv, shape if len(shape) > 1 or style == 'pairs'
                else shape[0], nodes_on_bdry=arg)
        except REJECT as e:
            raise Violation('C14|construct-rejected|'
                            'uniform_partition_fromintv|nob=' + style,
                            '{!r} {!r} {!r}: {}'.format(intv, shape, arg, e))
        _same(part, other, model, exact, 'fromintv', None)
        count += 1
    # (c) from a uniform grid with explicit limits; limits omitted (None /
    # dict) where the documented default x[0] - (x[1]-x[0])/2 applies
    try:
        grid = odl.uniform_grid(mins, maxs, shape,
                                nodes_on_bdry=_nob_arg(nob, 'pairs'))
    except REJECT as e:
        raise Violation('C14|construct-rejected|uniform_grid|nob=pairs',
                        '{!r} {!r} {!r}: {}'.format(mins, maxs, shape, e))
    other = odl.uniform_partition_fromgrid(grid, min_pt=mins, max_pt=maxs)
    _same(part, other, model, exact, 'fromgrid', None)
    count += 1
    dmin = {i: mins[i] for i in range(len(axes))
            if nob[i][0] or shape[i] == 1}
    dmax = {i - len(axes): maxs[i] for i in range(len(axes))
            if nob[i][1] or shape[i] == 1}
    other = odl.uniform_partition_fromgrid(grid, min_pt=dict(dmin),
                                           max_pt=dict(dmax))
    _same(part, other, model, exact, 'fromgrid-dict', None)
    count += 1
    return count


REQUIRED_STRATA = [
    'ctor:uniform', 'ctor:nonuniform', 'ctor:rect', 'ctor:fromgrid',
    'ctor:shared', 'shared:one-point-axis', 'shared:same-set-object',
    'op:query-order',
    'inputs-as:float64-ndarray', 'op:mutate-inputs',
    'mutate-inputs:ndarray-inputs', 'nob_style:bare',
    'given:mMn', 'given:mnd', 'given:Mnd', 'given:mMd', 'given:mMnd',
    'nob:00', 'nob:01', 'nob:10', 'nob:11', 'four-params-with-bdry-node',
    'one-point-axis', 'nonuniform-axis', 'boundary-node',
    'op:getitem:int', 'op:getitem:stepped', 'op:getitem:list',
    'op:insert', 'op:append', 'op:squeeze:none', 'op:byaxis:int',
    'op:byaxis:list', 'op:byaxis:slice',
]
