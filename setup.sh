#!/bin/bash
# Offline setup: make sure hypothesis / jsonschema import under /venv's python.
# Missing packages are installed from the offline wheelhouse into /verif/.deps
# (--target, --no-deps) so that /venv's NumPy/SciPy are never replaced.
here="$(cd "$(dirname "${BASH_SOURCE[0]}")" && pwd)"
cd "$here" || exit 2
PY="${VERIF_PYTHON:-/venv/bin/python}"
WH=/opt/veriftools/wheels
mkdir -p evidence replays/out .deps
export PYTHONPATH="$here/.deps"
need=""
for pair in hypothesis:hypothesis sortedcontainers:sortedcontainers attr:attrs \
            jsonschema:jsonschema jsonschema_specifications:jsonschema_specifications \
            referencing:referencing rpds:rpds_py typing_extensions:typing_extensions; do
  mod="${pair%%:*}"; pkg="${pair##*:}"
  "$PY" -c "import $mod" 2>/dev/null || need="$need $pkg"
done
if [ -n "$need" ]; then
  for pkg in $need; do
    PIP_NO_INDEX=1 "$PY" -m pip install -q --no-index --no-deps --find-links "$WH" \
        --target "$here/.deps" "$pkg" 2>&1 | tail -2 || true
  done
fi
"$PY" - <<'PY'
import sys
import numpy, scipy, hypothesis
try:
    import jsonschema
    js = jsonschema.__version__
except Exception as e:  # the runner has a built-in fallback validator
    js = 'unavailable ({})'.format(e)
sys.path.insert(0, '/repo')
import odl
print('setup ok: python', sys.version.split()[0], 'numpy', numpy.__version__,
      'scipy', scipy.__version__, 'hypothesis', hypothesis.__version__,
      'jsonschema', js, 'odl', odl.__file__)
PY
